#!/usr/bin/env python3
"""Mutation campaign for the Verus units (development tool, not part of any registered check).

  tools/mutate.py <unit> [--jobs N] [--only fn_substring] [--max K]

For every function the unit puts under contract it applies small syntactic mutation operators to
the function's text in a scratch copy of the crate sources, runs the unit's runner on the copy and
reports the mutants the contracts do NOT refute (survivors).  Survivors are either equivalent
mutants or contract weaknesses: triage by hand, strengthen the contract, re-run.
Mutants that do not compile / fall outside the subset (runner status `undecided`) are dropped."""
import argparse
import concurrent.futures as cf
import os
import re
import shutil
import subprocess
import sys

VERIF = os.path.dirname(os.path.dirname(os.path.abspath(__file__)))
sys.path.insert(0, os.path.join(VERIF, "vx"))
from extract import build_unit, locate  # noqa: E402
from rustlex import mask  # noqa: E402
from runner import run_unit  # noqa: E402

CRATES = ["rustzx-core/src", "rustzx-z80/src", "aym/src", "vtx/src"]

OPS = [
    (r"<=", ["<"]), (r">=", [">"]), (r"(?<![<\-=])<(?![<=])", ["<="]), (r"(?<![>\-=])>(?![>=])", [">="]),
    (r"==", ["!="]), (r"!=", ["=="]), (r"&&", ["||"]), (r"\|\|", ["&&"]),
    (r"\btrue\b", ["false"]), (r"\bfalse\b", ["true"]),
    (r"(?<![\w.])\+(?![=+])", ["-"]), (r"(?<![\w.(,=<>!&|+\-*/%] )-(?![=>\-])", ["+"]),
    (r"\+=", ["-="]), (r"-=", ["+="]),
    (r"&(?![&=])(?=\s*[\w(])", ["|"]), (r"(?<!\|)\|(?![|=])", ["&"]),
    (r"<<", [">>"]), (r">>", ["<<"]),
]


def literal_mutants(msk, text):
    for m in re.finditer(r"(?<![\w.])(0x[0-9A-Fa-f_]+|\d[\d_]*)(?![\w.])", msk):
        lit = text[m.start():m.end()]
        try:
            v = int(lit.replace("_", ""), 0)
        except ValueError:
            continue
        for nv in {v + 1, max(0, v - 1)} - {v}:
            rep = hex(nv) if lit.lower().startswith("0x") else str(nv)
            yield m.start(), m.end(), rep, "lit %s->%s" % (lit, rep)


def statement_deletions(msk, text):
    # single-line statements `    foo.bar(...);` or assignments
    off = 0
    for ln in text.split("\n"):
        s = ln.strip()
        if s.endswith(";") and not s.startswith(("let ", "return", "use ", "//", "break", "continue")) \
                and s.count("(") == s.count(")") and "{" not in s and "}" not in s:
            yield off, off + len(ln), " " * len(ln), "del `%s`" % s[:50]
        off += len(ln) + 1


def mutants_of(text):
    msk = mask(text)
    b = msk.find("{")
    for rx, reps in OPS:
        for m in re.finditer(rx, msk):
            if m.start() < b:
                continue
            for r in reps:
                yield m.start(), m.end(), r, "%s->%s" % (text[m.start():m.end()], r)
    for s, e, r, d in literal_mutants(msk, text):
        if s >= b:
            yield s, e, r, d
    body_off = b
    for s, e, r, d in statement_deletions(msk[body_off:], text[body_off:]):
        yield body_off + s, body_off + e, r, d


def one(job):
    unit, idx, relfile, fname, start, end, rep, desc, base = job
    work = "/var/tmp/vp-mut-%s-%d" % (unit, idx)
    try:
        shutil.rmtree(work, ignore_errors=True)
        os.makedirs(work)
        for c in CRATES:
            os.makedirs(os.path.join(work, "repo", os.path.dirname(c)), exist_ok=True)
            shutil.copytree(os.path.join(base, c), os.path.join(work, "repo", c))
        p = os.path.join(work, "repo", relfile)
        src = open(p).read()
        open(p, "w").write(src[:start] + rep + src[end:])
        r = run_unit(unit, os.path.join(work, "repo"), os.path.join(work, "vx"))
        line = src[:start].count("\n") + 1
        return dict(fn=fname, file=relfile, line=line, desc=desc, status=r["status"],
                    reason=(r.get("reason") or "")[:120],
                    failed=[f["obligation"][:100] for f in r["failures"][:2]])
    finally:
        shutil.rmtree(work, ignore_errors=True)


def main():
    ap = argparse.ArgumentParser()
    ap.add_argument("unit")
    ap.add_argument("--repo", default="/repo")
    ap.add_argument("--jobs", type=int, default=12)
    ap.add_argument("--only", default="")
    ap.add_argument("--max", type=int, default=0)
    a = ap.parse_args()
    tpl = os.path.join(VERIF, "vx", "units", a.unit + ".rs")
    u = build_unit(tpl, a.repo)
    jobs = []
    seen = set()
    for it in u.items:
        if it["kind"] != "fn" or not it.get("contracted") or it.get("canary") or it.get("auto"):
            continue
        if a.only and a.only not in it["name"]:
            continue
        key = (it["file"], it["path"])
        if key in seen:
            continue
        seen.add(key)
        try:
            _, raw = locate(a.repo, it["file"], it["path"])
        except Exception:
            continue
        src = open(os.path.join(a.repo, it["file"])).read()
        off = src.find(raw)
        if off < 0 or src.find(raw, off + 1) >= 0:
            continue
        ms = list(mutants_of(raw))
        if a.max:
            ms = ms[:a.max]
        for s, e, r, d in ms:
            jobs.append((a.unit, len(jobs), it["file"], it["name"], off + s, off + e, r, d, a.repo))
    print("%d mutants over %d functions" % (len(jobs), len(seen)), flush=True)
    killed = surv = drop = 0
    survivors = []
    with cf.ProcessPoolExecutor(max_workers=a.jobs) as ex:
        for res in ex.map(one, jobs, chunksize=1):
            if res["status"] == "fail":
                killed += 1
            elif res["status"] == "ok":
                surv += 1
                survivors.append(res)
                print("SURVIVOR %s %s:%d %s" % (res["fn"], res["file"], res["line"], res["desc"]), flush=True)
            else:
                drop += 1
    print("killed=%d survivors=%d dropped(not compiling / outside subset)=%d" % (killed, surv, drop))


if __name__ == "__main__":
    main()
