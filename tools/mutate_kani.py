#!/usr/bin/env python3
"""Mutation campaign for a Kani harness group (development tool, not part of any registered check).

  tools/mutate_kani.py <GROUP_NAME in props.py> <file relative to repo> [--fn name ...] [--jobs N] [--max K]

Applies the operators of tools/mutate.py to the named functions (default: every fn) of one source
file, runs the harness group on a scratch copy and lists the mutants no harness refutes."""
import argparse
import concurrent.futures as cf
import os
import re
import shutil
import sys

VERIF = os.path.dirname(os.path.dirname(os.path.abspath(__file__)))
sys.path.insert(0, os.path.join(VERIF, "vx"))
sys.path.insert(0, os.path.join(VERIF, "kani"))
sys.path.insert(0, VERIF)
sys.path.insert(0, os.path.join(VERIF, "tools"))
from rustlex import mask, match_close  # noqa: E402
from mutate import mutants_of  # noqa: E402
import kanirun  # noqa: E402
import props as P  # noqa: E402


def functions(src):
    msk = mask(src)
    t = re.search(r"#\[cfg\(test\)\]", msk)
    lim = t.start() if t else len(msk)
    for m in re.finditer(r"\bfn\s+(\w+)", msk[:lim]):
        b = msk.find("{", m.end())
        semi = msk.find(";", m.end())
        if b < 0 or (0 <= semi < b):
            continue
        e = match_close(msk, b)
        yield m.group(1), m.start(), e + 1


BASELINE = set()


def baseline(gname, base):
    g = dict(getattr(P, gname))
    g["jobs"] = 3
    work = "/var/tmp/vp-mutk-%s-base" % gname
    try:
        r = kanirun.run_groups([g], base, os.path.join(work, "scratch"), "MUT")
        return set((h["name"], fc["desc"].split(" @ ")[0]) for h in r["harnesses"] for fc in h["failed_checks"])
    finally:
        shutil.rmtree(work, ignore_errors=True)


def one(job):
    gname, idx, relfile, fname, start, end, rep, desc, base = job
    g = dict(getattr(P, gname))
    g["jobs"] = 2
    work = "/var/tmp/vp-mutk-%s-%d" % (gname, idx)
    try:
        shutil.rmtree(work, ignore_errors=True)
        os.makedirs(work)
        mrepo = os.path.join(work, "mrepo")
        os.system("rsync -a --exclude target --exclude .git --exclude screenshots %s/ %s/" % (base, mrepo))
        p = os.path.join(mrepo, relfile)
        src = open(p).read()
        open(p, "w").write(src[:start] + rep + src[end:])
        r = kanirun.run_groups([g], mrepo, os.path.join(work, "scratch"), "MUT")
        line = src[:start].count("\n") + 1
        failed = sorted(set(h["name"] for h in r["harnesses"] if h["status"] == "fail"
                            for fc in h["failed_checks"] if (h["name"], fc["desc"].split(" @ ")[0]) not in BASELINE))
        if failed:
            st = "fail"
        elif r["undecided"]:
            st = "undecided"
        else:
            st = "ok"
        return dict(fn=fname, line=line, desc=desc, status=st, failed=failed, und=(r["undecided"] or [""])[0][:150])
    finally:
        shutil.rmtree(work, ignore_errors=True)


def main():
    ap = argparse.ArgumentParser()
    ap.add_argument("group")
    ap.add_argument("file")
    ap.add_argument("--fn", action="append", default=[])
    ap.add_argument("--repo", default="/repo")
    ap.add_argument("--jobs", type=int, default=3)
    ap.add_argument("--max", type=int, default=0)
    ap.add_argument("--stride", type=int, default=1, help="take every n-th mutant")
    a = ap.parse_args()
    src = open(os.path.join(a.repo, a.file)).read()
    jobs = []
    for name, s, e in functions(src):
        if a.fn and name not in a.fn:
            continue
        ms = list(mutants_of(src[s:e]))
        if a.max:
            ms = ms[:a.max]
        for ms_, me_, r, d in ms:
            jobs.append((a.group, len(jobs), a.file, name, s + ms_, s + me_, r, d, a.repo))
    jobs = jobs[::a.stride]
    global BASELINE
    BASELINE = baseline(a.group, a.repo)
    print("%d mutants; baseline failing checks (ignored): %s" % (len(jobs), sorted(BASELINE)), flush=True)
    k = sv = dr = 0
    with cf.ProcessPoolExecutor(max_workers=a.jobs) as ex:
        for res in ex.map(one, jobs, chunksize=1):
            if res["status"] == "fail":
                k += 1
                print("killed   %s:%d %s by %s" % (res["fn"], res["line"], res["desc"], ",".join(res["failed"])), flush=True)
            elif res["status"] == "ok":
                sv += 1
                print("SURVIVOR %s:%d %s" % (res["fn"], res["line"], res["desc"]), flush=True)
            else:
                dr += 1
                print("dropped  %s:%d %s (%s)" % (res["fn"], res["line"], res["desc"], res["und"]), flush=True)
    print("killed=%d survivors=%d dropped=%d" % (k, sv, dr))


if __name__ == "__main__":
    main()
