APPENDS = {
    "vtx/src/player.rs": ["kani/vtx/append_player.rs"],
    "vtx/src/lib.rs": [
        "\n#[cfg(kani)]\n#[path = \"@VERIF@/kani/vtx/harness.rs\"]\nmod verif;\n"
    ],
}
