//! K-vtx - C20: Player timing and independence of play() chunking. BOUNDED stand-in
//! (chunks_exact_mut / slice iterators are outside the Verus subset): register logs of <= 2 frames,
//! samples_per_frame 1..3, output split into <= 3 play() calls of symbolic lengths <= 4.
#![allow(dead_code, unused_imports)]
use crate::player::Player;
use crate::{SoundChip, Stereo, Vtx};
use aym::{AyMode, AymBackend, StereoSample};

const MAXW: usize = 28;

/// recording back end: logs (samples generated so far, register, value); sample k has value k
pub struct Rec {
    n_samples: usize,
    w_at: [usize; MAXW],
    w_reg: [u8; MAXW],
    w_val: [u8; MAXW],
    n_w: usize,
    overflow: bool,
}
impl AymBackend for Rec {
    type SoundSample = f64;
    fn new(_chip: aym::SoundChip, _mode: AyMode, _frequency: usize, _sample_rate: usize) -> Self {
        Rec { n_samples: 0, w_at: [0; MAXW], w_reg: [0; MAXW], w_val: [0; MAXW], n_w: 0, overflow: false }
    }
    fn write_register(&mut self, address: u8, value: u8) {
        if self.n_w < MAXW {
            self.w_at[self.n_w] = self.n_samples;
            self.w_reg[self.n_w] = address;
            self.w_val[self.n_w] = value;
            self.n_w += 1;
        } else {
            self.overflow = true;
        }
    }
    fn next_sample(&mut self) -> StereoSample<f64> {
        let k = self.n_samples as f64;
        self.n_samples += 1;
        StereoSample { left: k, right: -k }
    }
}

fn vtx_of(frames: usize, data: &[u8; 28], player_frequency: u8) -> Vtx {
    Vtx {
        chip: SoundChip::AY,
        stereo: Stereo::ABC,
        frequency: 1773400,
        player_frequency,
        loop_start_frame: 0,
        year: 0,
        title: String::new(),
        author: String::new(),
        from: String::new(),
        tracker: String::new(),
        comment: String::new(),
        frame_data: data[..frames * 14].to_vec(),
    }
}

/// one play-out of a 2-frame log with the first play() call of `l1` samples and the rest in a
/// second call; register bytes symbolic, split and samples_per_frame concrete (enumerated by the
/// harnesses: symbolic buffer lengths made the run infeasible, > 12 GB)
fn scenario(stereo: bool, frames: usize, spf: usize, l1: usize, data: &[u8; 28]) {
    let mut p = Player::<Rec>::new(vtx_of(frames, data, 1), spf, stereo);
    let ch = if stereo { 2 } else { 1 };
    let mut a = [0f64; 4];
    let mut b = [0f64; 10];
    let n1 = p.play(&mut a[..l1]);
    kani::assert(n1 <= l1 && n1 % ch == 0, "C20: play fills whole sample frames within the buffer");
    let n2 = p.play(&mut b);
    let total = frames * spf;
    kani::assert(n1 + n2 == total * ch, "C20: frames*floor(rate/freq) samples per channel in total");
    kani::assert(p.play(&mut b[8..10]) == 0, "C20: nothing after the end");
    // the stream does not depend on how it was split: sample k carries value k (left) / -k (right)
    let mut i = 0;
    while i < n1 + n2 {
        let v = if i < n1 { a[i] } else { b[i - n1] };
        let k = (i / ch) as f64;
        let exp = if stereo && i % 2 == 1 { -k } else { k };
        kani::assert(v == exp, "C20: output stream identical for every split of play() calls");
        i += 1;
    }
    // register writes of frame j happen exactly before sample j*spf, R13 == 0xFF is skipped
    let ay = p.verif_backend();
    kani::assert(!ay.overflow && ay.n_samples == total, "C20: the chip generates exactly the samples delivered");
    let mut w = 0;
    let mut j = 0;
    while j < frames {
        let mut r = 0;
        while r < 14 {
            let val = data[j * 14 + r];
            if !(r == 13 && val == 0xFF) {
                kani::assert(w < ay.n_w && ay.w_reg[w] == r as u8 && ay.w_val[w] == val && ay.w_at[w] == j * spf,
                    "C20: frame k's fourteen values, in register order, exactly at output sample k*floor(rate/freq); R13=0xFF skipped");
                w += 1;
            }
            r += 1;
        }
        j += 1;
    }
    kani::assert(w == ay.n_w, "C20: no other register writes");
}

fn all_splits(stereo: bool) {
    let data: [u8; 28] = kani::any();
    let mut spf = 1;
    while spf <= 2 {
        let mut l1 = 0;
        while l1 <= 4 {
            scenario(stereo, 2, spf, l1, &data);
            l1 += 1;
        }
        spf += 1;
    }
    scenario(stereo, 0, 1, 2, &data);
    kani::cover!(true);
}

#[kani::proof]
#[kani::unwind(30)]
fn play_mono() {
    all_splits(false);
}

#[kani::proof]
#[kani::unwind(30)]
fn play_stereo() {
    all_splits(true);
}

/// C15, VTX header. CBMC does not prune paths behind `assume`, so every header byte that steers
/// the loader (magic, stereo mode, player frequency, declared size) is enumerated concretely and
/// only the bytes it merely stores (loop frame, chip frequency, year) stay symbolic: 5 invalid
/// header variants, 5 truncations, and a valid header followed by end of file. Every case gives
/// Err - no panic, no endless loop.
/// BOUNDED and partial: the strings-block scan over actual string bytes (`iter().position` over a
/// 256-byte window inside two nested data-dependent loops) did not finish in CBMC within 25
/// minutes even for one concrete file, and the LH5 payload (delharc) is out of reach: both are
/// stated as not covered.
fn lossy_stub(_v: &[u8]) -> std::borrow::Cow<'_, str> {
    std::borrow::Cow::Borrowed("")
}

#[derive(Clone, Copy)]
struct Hdr {
    magic: [u8; 2],
    stereo: u8,
    pfreq: u8,
    size: u32,
}

fn vtx_case(h: Hdr, sym: &[u8; 8], tail: &[u8], len: usize) -> bool {
    let mut data = [0u8; 32];
    data[0] = h.magic[0];
    data[1] = h.magic[1];
    data[2] = h.stereo;
    data[3] = sym[0];
    data[4] = sym[1];
    data[5] = sym[2];
    data[6] = sym[3];
    data[7] = sym[4];
    data[8] = sym[5];
    data[9] = h.pfreq;
    data[10] = sym[6];
    data[11] = sym[7];
    data[12] = h.size as u8;
    data[13] = (h.size >> 8) as u8;
    data[14] = (h.size >> 16) as u8;
    data[15] = (h.size >> 24) as u8;
    let mut j = 0;
    while j < tail.len() {
        data[16 + j] = tail[j];
        j += 1;
    }
    let r = Vtx::load(std::io::Cursor::new(&data[..len]));
    if let Ok(v) = &r {
        kani::assert(v.player_frequency != 0, "C15/C20: a loaded track never has player frequency 0");
        kani::assert(v.frame_data.len() == 0, "C15: no frame data was declared");
        kani::assert(h.size == 0, "C15: a declared frame size that is too big or not a multiple of 14 is rejected");
        kani::assert(v.loop_start_frame == (sym[0] as u16) | ((sym[1] as u16) << 8), "C20: loop frame is the header field");
    }
    if len < 16 {
        kani::assert(r.is_err(), "C15: truncated VTX header is an error");
    }
    r.is_ok()
}

#[kani::proof]
#[kani::unwind(40)]
#[kani::stub(std::string::String::from_utf8_lossy, lossy_stub)]
fn vtx_load_header() {
    let sym: [u8; 8] = kani::any();
    let good = Hdr { magic: *b"ay", stereo: 1, pfreq: 50, size: 0 };
    // invalid headers: rejected before the strings block is looked at
    let bad = [
        Hdr { magic: *b"zz", ..good },
        Hdr { stereo: 0xEE, ..good },
        Hdr { pfreq: 0, ..good },
        Hdr { size: 13, ..good },
        Hdr { size: 14 * 4_800_000, ..good },
    ];
    let mut i = 0;
    while i < 5 {
        let r = vtx_case(bad[i], &sym, b"", 16);
        kani::assert(!r, "C15: an invalid VTX header is rejected");
        i += 1;
    }
    // truncated headers
    let lens: [usize; 5] = [0, 1, 2, 3, 15];
    let mut i = 0;
    while i < 5 {
        vtx_case(good, &sym, b"", lens[i]);
        i += 1;
    }
    // a valid header followed by end of file: the strings scan must stop (it used to spin forever)
    let r = vtx_case(good, &sym, b"", 16);
    kani::assert(!r, "C15: end of file inside the strings block is an error, not an endless loop");
    let r = vtx_case(Hdr { magic: *b"ym", ..good }, &sym, b"", 16);
    kani::assert(!r, "C15: end of file inside the strings block is an error, not an endless loop");
    kani::cover!(true);
}
