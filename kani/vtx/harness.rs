//! K-vtx - C20: Player timing and independence of play() chunking. BOUNDED stand-in
//! (chunks_exact_mut / slice iterators are outside the Verus subset): register logs of <= 2 frames,
//! samples_per_frame 1..3, output split into <= 3 play() calls of symbolic lengths <= 4.
#![allow(dead_code, unused_imports)]
use crate::player::Player;
use crate::{SoundChip, Stereo, Vtx};
use aym::{AyMode, AymBackend, StereoSample};

const MAXW: usize = 28;

/// recording back end: logs (samples generated so far, register, value); sample k has value k
pub struct Rec {
    n_samples: usize,
    w_at: [usize; MAXW],
    w_reg: [u8; MAXW],
    w_val: [u8; MAXW],
    n_w: usize,
    overflow: bool,
}
impl AymBackend for Rec {
    type SoundSample = f64;
    fn new(_chip: aym::SoundChip, _mode: AyMode, _frequency: usize, _sample_rate: usize) -> Self {
        Rec { n_samples: 0, w_at: [0; MAXW], w_reg: [0; MAXW], w_val: [0; MAXW], n_w: 0, overflow: false }
    }
    fn write_register(&mut self, address: u8, value: u8) {
        if self.n_w < MAXW {
            self.w_at[self.n_w] = self.n_samples;
            self.w_reg[self.n_w] = address;
            self.w_val[self.n_w] = value;
            self.n_w += 1;
        } else {
            self.overflow = true;
        }
    }
    fn next_sample(&mut self) -> StereoSample<f64> {
        let k = self.n_samples as f64;
        self.n_samples += 1;
        StereoSample { left: k, right: -k }
    }
}

fn vtx_of(frames: usize, data: &[u8; 28], player_frequency: u8) -> Vtx {
    Vtx {
        chip: SoundChip::AY,
        stereo: Stereo::ABC,
        frequency: 1773400,
        player_frequency,
        loop_start_frame: 0,
        year: 0,
        title: String::new(),
        author: String::new(),
        from: String::new(),
        tracker: String::new(),
        comment: String::new(),
        frame_data: data[..frames * 14].to_vec(),
    }
}

/// one play-out of a 2-frame log with the first play() call of `l1` samples and the rest in a
/// second call; register bytes symbolic, split and samples_per_frame concrete (enumerated by the
/// harnesses: symbolic buffer lengths made the run infeasible, > 12 GB)
fn scenario(stereo: bool, frames: usize, spf: usize, l1: usize, data: &[u8; 28]) {
    let mut p = Player::<Rec>::new(vtx_of(frames, data, 1), spf, stereo);
    let ch = if stereo { 2 } else { 1 };
    let mut a = [0f64; 4];
    let mut b = [0f64; 10];
    let n1 = p.play(&mut a[..l1]);
    kani::assert(n1 <= l1 && n1 % ch == 0, "C20: play fills whole sample frames within the buffer");
    let n2 = p.play(&mut b);
    let total = frames * spf;
    kani::assert(n1 + n2 == total * ch, "C20: frames*floor(rate/freq) samples per channel in total");
    kani::assert(p.play(&mut b[8..10]) == 0, "C20: nothing after the end");
    // the stream does not depend on how it was split: sample k carries value k (left) / -k (right)
    let mut i = 0;
    while i < n1 + n2 {
        let v = if i < n1 { a[i] } else { b[i - n1] };
        let k = (i / ch) as f64;
        let exp = if stereo && i % 2 == 1 { -k } else { k };
        kani::assert(v == exp, "C20: output stream identical for every split of play() calls");
        i += 1;
    }
    // register writes of frame j happen exactly before sample j*spf, R13 == 0xFF is skipped
    let ay = p.verif_backend();
    kani::assert(!ay.overflow && ay.n_samples == total, "C20: the chip generates exactly the samples delivered");
    let mut w = 0;
    let mut j = 0;
    while j < frames {
        let mut r = 0;
        while r < 14 {
            let val = data[j * 14 + r];
            if !(r == 13 && val == 0xFF) {
                kani::assert(w < ay.n_w && ay.w_reg[w] == r as u8 && ay.w_val[w] == val && ay.w_at[w] == j * spf,
                    "C20: frame k's fourteen values, in register order, exactly at output sample k*floor(rate/freq); R13=0xFF skipped");
                w += 1;
            }
            r += 1;
        }
        j += 1;
    }
    kani::assert(w == ay.n_w, "C20: no other register writes");
}

fn all_splits(stereo: bool) {
    let data: [u8; 28] = kani::any();
    let mut spf = 1;
    while spf <= 2 {
        let mut l1 = 0;
        while l1 <= 4 {
            scenario(stereo, 2, spf, l1, &data);
            l1 += 1;
        }
        spf += 1;
    }
    scenario(stereo, 0, 1, 2, &data);
    kani::cover!(true);
}

#[kani::proof]
#[kani::unwind(30)]
fn play_mono() {
    all_splits(false);
}

#[kani::proof]
#[kani::unwind(30)]
fn play_stereo() {
    all_splits(true);
}

/// C15, VTX header + strings block: every 16-byte header (symbolic: magic, stereo byte, loop frame,
/// chip and player frequency, year, declared size) in front of each of the enumerated strings
/// blocks (well-formed, truncated inside a string, missing, no terminator at all, empty strings,
/// one terminator short) and every truncation of the header itself gives Ok or Err - no panic,
/// no endless loop, never a track with player frequency 0.
/// BOUNDED: strings blocks enumerated (concrete bytes; their contents only steer the scan loop);
/// the LH5 payload is excluded (declared frame size 0 or the loader fails before decoding):
/// delharc internals and String::from_utf8_lossy (stubbed: the strings are not part of any
/// property) are out of reach.
fn lossy_stub(_v: &[u8]) -> std::borrow::Cow<'_, str> {
    std::borrow::Cow::Borrowed("")
}

fn vtx_header_case(hdr: &[u8; 16], tail: &[u8], len: usize) -> bool {
    let mut data = [0u8; 32];
    let mut i = 0;
    while i < 16 {
        data[i] = hdr[i];
        i += 1;
    }
    let mut j = 0;
    while j < tail.len() {
        data[16 + j] = tail[j];
        j += 1;
    }
    let r = Vtx::load(std::io::Cursor::new(&data[..len]));
    if let Ok(v) = &r {
        kani::assert(v.player_frequency != 0, "C15/C20: a loaded track never has player frequency 0");
        kani::assert(v.frame_data.len() == 0, "C15: no frame data was declared");
    }
    if len < 16 {
        kani::assert(r.is_err(), "C15: truncated VTX header is an error");
    }
    r.is_ok()
}

fn vtx_headers(decode: bool) {
    let hdr: [u8; 16] = kani::any();
    // the LH5 decoder (delharc) is out of reach: `decode` selects whether the declared size is 0
    // (the decoder is entered with nothing to decode; concrete size field) or one the loader must
    // reject before decoding (symbolic)
    let mut hdr = hdr;
    if decode {
        hdr[12] = 0;
        hdr[13] = 0;
        hdr[14] = 0;
        hdr[15] = 0;
    } else {
        let size = (hdr[12] as u32) | ((hdr[13] as u32) << 8) | ((hdr[14] as u32) << 16) | ((hdr[15] as u32) << 24);
        kani::assume(size > 64 * 1024 * 1024 || size % 14 != 0);
    }
    let mut any_ok = false;
    // truncated headers
    let lens: [usize; 5] = [0, 1, 2, 3, 15];
    let mut i = 0;
    while i < 5 {
        any_ok |= vtx_header_case(&hdr, b"", lens[i]);
        i += 1;
    }
    // strings blocks
    any_ok |= vtx_header_case(&hdr, b"t\0a\0f\0k\0c\0", 26);
    any_ok |= vtx_header_case(&hdr, b"t\0a\0", 20);
    any_ok |= vtx_header_case(&hdr, b"t\0au", 20);
    any_ok |= vtx_header_case(&hdr, b"", 16);
    any_ok |= vtx_header_case(&hdr, b"abcdefgh", 24);
    any_ok |= vtx_header_case(&hdr, b"\0\0\0\0\0", 21);
    any_ok |= vtx_header_case(&hdr, b"\0\0\0\0", 20);
    if decode {
        kani::cover!(any_ok);
    } else {
        kani::assert(!any_ok, "C15: a declared frame size that is too big or not a multiple of 14 is rejected");
    }
    kani::cover!(!any_ok);
}

#[kani::proof]
#[kani::unwind(260)]
#[kani::stub(std::string::String::from_utf8_lossy, lossy_stub)]
fn vtx_load_header() {
    vtx_headers(false);
}

#[kani::proof]
#[kani::unwind(260)]
#[kani::stub(std::string::String::from_utf8_lossy, lossy_stub)]
fn vtx_load_empty_track() {
    vtx_headers(true);
}
