
// ---- appended by /verif/kani/inject.py (scratch copy only, add-only) ----
#[cfg(kani)]
impl<AY: AymBackend> Player<AY> {
    pub fn verif_backend(&self) -> &AY { &self.ay }
}
