"""Run Kani harness groups on an overlay-injected scratch copy of /repo."""
import os
import re
import subprocess
import sys
import time

VERIF = os.path.dirname(os.path.dirname(os.path.abspath(__file__)))
NCPU = os.cpu_count() or 8


def parse(output):
    """-> {harness_fullname: dict(status, checks, failed, failed_checks, time_s, cover_ok)}"""
    res = {}
    thread_h = {}
    cur = None
    lines = output.split("\n")
    i = 0
    while i < len(lines):
        ln = lines[i]
        m = re.match(r"(?:Thread (\d+): )?Checking harness (\S+?)\.\.\.", ln)
        if m:
            t = m.group(1) or "0"
            thread_h[t] = m.group(2)
            res.setdefault(m.group(2), dict(status="undecided", checks=0, failed=0, failed_checks=[],
                                            time_s=0.0, cover_fail=0, text=""))
            if m.group(1) is None:
                cur = m.group(2)
            i += 1
            continue
        m = re.match(r"Thread (\d+): *$", ln)
        if m:
            cur = thread_h.get(m.group(1))
            i += 1
            continue
        if cur is not None:
            r = res[cur]
            r["text"] += ln + "\n"
            m = re.search(r"\*\* (\d+) of (\d+) failed", ln)
            if m:
                r["failed"] = int(m.group(1))
                r["checks"] = int(m.group(2))
            m = re.search(r"\*\* (\d+) of (\d+) cover properties satisfied", ln)
            if m:
                r["cover_fail"] = int(m.group(2)) - int(m.group(1))
            m = re.match(r"Failed Checks: (.*)", ln)
            if m:
                loc = lines[i + 1].strip() if i + 1 < len(lines) else ""
                r["failed_checks"].append(dict(desc=(m.group(1) + " @ " + loc)[:300],
                                               text=ln + "\n" + loc))
            if "VERIFICATION:- SUCCESSFUL" in ln:
                r["status"] = "ok"
            elif "VERIFICATION:- FAILED" in ln:
                r["status"] = "fail"
            m = re.match(r"Verification Time: ([\d.]+)s", ln)
            if m:
                r["time_s"] = float(m.group(1))
        i += 1
    return res


TOOL_LIMIT = re.compile(r"unwinding assertion|not supported|unsupported|out of memory|timeout|"
                        r"CBMC failed|recursion", re.I)


def run_groups(groups, repo, scratch, pid):
    out = dict(harnesses=[], undecided=[], cmds=[], assumptions=[], solver_s=0.0)
    r = subprocess.run([sys.executable, os.path.join(VERIF, "kani", "inject.py"), scratch, "--repo", repo],
                       capture_output=True, text=True)
    if r.returncode != 0:
        out["undecided"].append("kani overlay: " + (r.stderr.strip() or r.stdout.strip())[-500:])
        return out
    env = dict(os.environ, CARGO_NET_OFFLINE="true")
    for g in groups:
        cmd = ["cargo", "kani", "-p", g["package"]]
        if g.get("features"):
            cmd += ["--features", g["features"]]
        cmd += ["-Z", "function-contracts", "-Z", "stubbing", "-j", str(g.get("jobs", NCPU)),
                "--output-format=terse"] + g.get("flags", [])
        for h in g["harnesses"]:
            cmd += ["--harness", h]
        out["cmds"].append(" ".join(cmd))
        t0 = time.time()
        import signal
        proc = subprocess.Popen(cmd, cwd=scratch, env=env, stdout=subprocess.PIPE, stderr=subprocess.STDOUT,
                                text=True, start_new_session=True)
        try:
            text, _ = proc.communicate(timeout=g.get("timeout", 3600))
        except subprocess.TimeoutExpired:
            # kill the whole process group (cargo-kani -> kani-driver -> cbmc), otherwise the
            # solver processes keep the pipes open and keep eating memory
            try:
                os.killpg(proc.pid, signal.SIGKILL)
            except ProcessLookupError:
                pass
            try:
                text, _ = proc.communicate(timeout=30)
            except Exception:
                text = ""
            out["undecided"].append("kani group %s: timeout after %ss" % (g.get("name", "?"), g.get("timeout", 3600)))
            parsed_partial = parse(text or "")
            for h in g["harnesses"]:
                out["harnesses"].append(dict(name=h, status="undecided", checks=0, failed=0, failed_checks=[],
                                             time_s=0, bounded=g.get("bounded", {}).get(h, ""), functions=[]))
            continue
        parsed = parse(text)
        if "error: could not compile" in text or "error[E" in text:
            errs = "\n".join(l for l in text.split("\n") if l.startswith("error"))[:800]
            out["undecided"].append("kani build failed (overlay no longer fits the code?): " + errs)
            continue
        for h in g["harnesses"]:
            full = [k for k in parsed if k == h or k.endswith("::" + h)]
            hb = g.get("bounded", {}).get(h, "")
            fns = g.get("functions", {}).get(h, g.get("functions", {}).get("*", []))
            if not full:
                out["undecided"].append("kani harness %s produced no result" % h)
                out["harnesses"].append(dict(name=h, status="undecided", checks=0, failed=0, failed_checks=[],
                                             time_s=0, bounded=hb, functions=fns))
                continue
            r = parsed[full[0]]
            out["solver_s"] += r["time_s"]
            st = r["status"]
            fcs = r["failed_checks"]
            if st == "fail" and fcs and all(TOOL_LIMIT.search(f["desc"]) for f in fcs):
                st = "undecided"
                out["undecided"].append("kani harness %s: tool limit: %s" % (h, fcs[0]["desc"]))
                fcs = []
            elif st == "fail":
                fcs = [f for f in fcs if not TOOL_LIMIT.search(f["desc"])]
            if st == "undecided" and not any(h in u for u in out["undecided"]):
                out["undecided"].append("kani harness %s: no verdict (%s)" % (h, r["text"][-300:].strip()))
            if st == "ok" and r["cover_fail"]:
                st = "undecided"
                out["undecided"].append("kani harness %s: vacuity guard: %d cover properties unsatisfied"
                                        % (h, r["cover_fail"]))
            out["harnesses"].append(dict(name=h, status=st, checks=r["checks"], failed=r["failed"],
                                         failed_checks=fcs, time_s=r["time_s"], bounded=hb, functions=fns,
                                         finder=g.get("finder"),
                                         group=dict(package=g["package"], features=g.get("features"),
                                                    flags=g.get("flags", []))))
        for s in g.get("assumptions", []):
            out["assumptions"].append("[kani:%s] %s" % (g.get("name", g["package"]), s))
    return out
