
// ---- appended by /verif/kani/inject.py (scratch copy only, add-only) ----
#[cfg(kani)]
impl KempstonJoy {
    pub fn verif_state(&self) -> u8 { self.state }
    pub fn verif_set_state(&mut self, s: u8) { self.state = s; }
}
