
// ---- appended by /verif/kani/inject.py (scratch copy only, add-only) ----
#[cfg(kani)]
impl ZXAyChip {
    pub fn verif_regs(&self) -> [u8; 16] { self.regs }
    pub fn verif_current_reg(&self) -> usize { self.current_reg }
    pub fn verif_set(&mut self, regs: [u8; 16], current_reg: usize) {
        self.regs = regs;
        self.current_reg = current_reg;
    }
}
