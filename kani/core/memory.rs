//! K-core::memory - page slice ranges (C06/C13/C14/C15): `ram_page_data`, `ram_page_data_mut` and
//! `rom_page_data_mut` return exactly the 16 KiB of the requested page. A slice is contiguous, so
//! its range is pinned by its length and by where its first and last byte live: a byte stored
//! through the mutable slice of page p at offset 0 / 16383 is what the CPU reads at the first /
//! last address of bank p (through the real memory map) and appears in no other page.
//! Pages and the two offsets are enumerated concretely (symbolic indices into the 128 KiB vector
//! exhaust memory); the stored value is symbolic.
use crate::zx::memory::{Page, RamType, RomType, ZXMemory, PAGE_SIZE};

fn check(k128: bool) {
    let mut m = if k128 { ZXMemory::new(RomType::K32, RamType::K128) } else { ZXMemory::new(RomType::K16, RamType::K48) };
    let ram_pages: u8 = if k128 { 8 } else { 3 };
    let rom_pages: u8 = if k128 { 2 } else { 1 };
    let v: u8 = kani::any();
    kani::assume(v != 0);
    let mut page = 0u8;
    while page < ram_pages {
        kani::assert(m.ram_page_data(page).len() == PAGE_SIZE, "ram_page_data: 16 KiB");
        {
            let s = m.ram_page_data_mut(page);
            kani::assert(s.len() == PAGE_SIZE, "ram_page_data_mut: 16 KiB");
            s[0] = v;
            s[PAGE_SIZE - 1] = v;
        }
        let mut p2 = 0u8;
        while p2 < ram_pages {
            let s = m.ram_page_data(p2);
            let exp = if p2 == page { v } else { 0 };
            kani::assert(s[0] == exp && s[PAGE_SIZE - 1] == exp && s[1] == 0 && s[PAGE_SIZE - 2] == 0,
                "page accessors address exactly the requested bank");
            p2 += 1;
        }
        m.remap(3, Page::Ram(page));
        kani::assert(m.read(0xC000) == v && m.read(0xFFFF) == v && m.read(0xC001) == 0,
            "a RAM page slice is the CPU-visible bank");
        {
            let s = m.ram_page_data_mut(page);
            s[0] = 0;
            s[PAGE_SIZE - 1] = 0;
        }
        page += 1;
    }
    let mut page = 0u8;
    while page < rom_pages {
        {
            let s = m.rom_page_data_mut(page);
            kani::assert(s.len() == PAGE_SIZE, "rom_page_data_mut: 16 KiB");
            s[0] = v;
            s[PAGE_SIZE - 1] = v;
        }
        m.remap(0, Page::Rom(page));
        kani::assert(m.read(0x0000) == v && m.read(0x3FFF) == v && m.read(0x0001) == 0, "a ROM page slice is the CPU-visible ROM page");
        if k128 {
            m.remap(0, Page::Rom(1 - page));
            kani::assert(m.read(0x0000) == 0 && m.read(0x3FFF) == 0, "... and not the other ROM page");
        }
        {
            let s = m.rom_page_data_mut(page);
            s[0] = 0;
            s[PAGE_SIZE - 1] = 0;
        }
        page += 1;
    }
    kani::cover!(true);
}

#[kani::proof]
#[kani::unwind(10)]
fn page_slices() {
    check(false);
    check(true);
}
