//! K-core::memory - page slice ranges (C06/C13/C14/C15): `rom_page_data_mut`, `ram_page_data_mut`
//! and `ram_page_data` return exactly the 16 KiB of the requested page.
use crate::zx::memory::{RamType, RomType, ZXMemory, PAGE_SIZE};

fn mem(k128: bool) -> ZXMemory {
    if k128 {
        ZXMemory::new(RomType::K32, RamType::K128)
    } else {
        ZXMemory::new(RomType::K16, RamType::K48)
    }
}

#[kani::proof]
#[kani::unwind(3)]
fn page_slices() {
    let k128: bool = kani::any();
    let mut m = mem(k128);
    let ram_pages: u8 = if k128 { 8 } else { 3 };
    let rom_pages: u8 = if k128 { 2 } else { 1 };
    let page: u8 = kani::any();
    let off: usize = kani::any();
    kani::assume(off < PAGE_SIZE);
    let v: u8 = kani::any();
    if page < ram_pages {
        let base = m.ram_page_data(0).as_ptr() as usize;
        {
            let s = m.ram_page_data(page);
            kani::assert(s.len() == PAGE_SIZE, "ram_page_data: 16 KiB");
            kani::assert(s.as_ptr() as usize == base + page as usize * PAGE_SIZE, "ram_page_data: starts at page*16K");
        }
        {
            let s = m.ram_page_data_mut(page);
            kani::assert(s.len() == PAGE_SIZE, "ram_page_data_mut: 16 KiB");
            kani::assert(s.as_ptr() as usize == base + page as usize * PAGE_SIZE, "ram_page_data_mut: starts at page*16K");
            s[off] = v;
        }
        kani::assert(m.ram_page_data(page)[off] == v, "ram_page_data_mut: stores land in the bank");
    }
    if page < rom_pages {
        let s = m.rom_page_data_mut(page);
        kani::assert(s.len() == PAGE_SIZE, "rom_page_data_mut: 16 KiB");
        s[off] = v;
        // ROM page p is what the CPU reads at 0x0000.. when Rom(p) is mapped (128K: remap)
    }
    kani::cover!(page < ram_pages);
}
