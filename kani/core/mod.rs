//! Kani harnesses spliced into a scratch copy of `rustzx-core` (cfg(kani) only).
#![allow(dead_code, unused_imports, clippy::all)]
mod host;
mod machine;
mod ctl_io;
mod input;
pub mod sna;
mod memory;
mod audio;
mod loaders;
mod screen;
