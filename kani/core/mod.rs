//! Kani harnesses spliced into a scratch copy of `rustzx-core` (cfg(kani) only).
#![allow(dead_code, unused_imports, clippy::all)]
mod machine;
