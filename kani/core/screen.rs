//! K-core::screen - C08: refresh_memory_dependent_devices (iterator code, outside the Verus
//! subset) forwards EVERY byte of EVERY display bank to the screen shadow: bank 0 on the 48K,
//! banks 5 AND 7 on the 128K, whichever bank is currently displayed.
//! The 2 x 16384-iteration loops over the real pages did not finish in 40 minutes, so the page
//! accessor is replaced by 4-byte stand-in pages (the loop is over whatever slice the accessor
//! returns: parametric in its length; that the accessor returns exactly the bank is
//! K-core::memory::page_slices) and ZXScreen::update by a recorder (its effect on the shadow is the
//! Verus contract of the real `update`, unit screen).
use super::host::*;
use super::sna::page_stub;
use crate::host::FrameBuffer;
use crate::zx::{controller::ZXController, machine::ZXMachine, video::screen::ZXScreen};

static mut ULOG: [(u16, usize, u8); 10] = [(0, 0, 0); 10];
static mut ULEN: usize = 0;
pub fn update_stub<FB: FrameBuffer>(_s: &mut ZXScreen<FB>, rel_addr: u16, bank: usize, data: u8) {
    unsafe {
        if ULEN < 10 {
            ULOG[ULEN] = (rel_addr, bank, data);
        }
        ULEN += 1;
    }
}

fn check(machine: ZXMachine) {
    let mut c = ZXController::<VHost>::new(&settings(machine, false, false, false), VContext);
    if machine == ZXMachine::Sinclair128K {
        let latch: u8 = kani::any();
        c.write_7ffd(latch); // any displayed bank / paging state
    }
    let content: [[u8; 4]; 8] = kani::any();
    unsafe {
        super::sna::set_vpages(content);
        ULEN = 0;
    }
    c.refresh_memory_dependent_devices();
    let banks: &[usize] = if machine == ZXMachine::Sinclair48K { &[0] } else { &[5, 7] };
    let mut n = 0;
    let mut b = 0;
    while b < banks.len() {
        let mut i = 0;
        while i < 4 {
            let e = unsafe { ULOG[n] };
            kani::assert(e == (i as u16, banks[b], content[banks[b]][i]),
                "C08: refresh forwards every byte of every display bank (48K: 0; 128K: 5 and 7) to the screen shadow");
            n += 1;
            i += 1;
        }
        b += 1;
    }
    kani::assert(unsafe { ULEN } == n, "C08: refresh forwards nothing else");
    kani::cover!(true);
}

macro_rules! refresh {
    ($name:ident, $m:expr) => {
        #[kani::proof]
        #[kani::unwind(10)]
        #[kani::stub(libm::sqrt, sqrt_stub)]
        #[kani::stub(crate::zx::memory::ZXMemory::ram_page_data, page_stub)]
        #[kani::stub(crate::zx::video::screen::ZXScreen::update, update_stub)]
        fn $name() {
            check($m);
        }
    };
}
refresh!(refresh_shadow_48k, ZXMachine::Sinclair48K);
refresh!(refresh_shadow_128k, ZXMachine::Sinclair128K);
