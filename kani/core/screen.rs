//! K-core::screen - C08: refresh_memory_dependent_devices (iterator code, outside the Verus
//! subset) re-establishes shadow == RAM for every display bank: after bytes reached RAM behind the
//! bus (snapshot / screen file / poke) the shadow of bank 0 (48K) resp. banks 5 AND 7 (128K) holds
//! them, whichever bank is currently displayed.
use super::host::*;
use crate::utils::screen::{bitmap_col_rel, bitmap_line_rel};
use crate::zx::{controller::ZXController, machine::ZXMachine};

fn check(machine: ZXMachine, ram_bank: u8, local: usize) {
    let mut c = ZXController::<VHost>::new(&settings(machine, false, false, false), VContext);
    if machine == ZXMachine::Sinclair128K {
        let latch: u8 = kani::any();
        c.write_7ffd(latch); // any displayed bank / paging state
    }
    let off: usize = kani::any();
    kani::assume(off < 0x1B00);
    let v: u8 = kani::any();
    c.memory.ram_page_data_mut(ram_bank)[off] = v;
    c.refresh_memory_dependent_devices();
    if off < 0x1800 {
        let idx = bitmap_line_rel(off as u16) * 32 + bitmap_col_rel(off as u16);
        kani::assert(c.screen.verif_bitmap(local, idx) == v, "C08: refresh copies every display byte of every display bank into the shadow");
    } else {
        let a = c.screen.verif_attr(local, off - 0x1800);
        let ink: u8 = a.ink.into();
        let paper: u8 = a.paper.into();
        kani::assert(ink == v & 7 && paper == (v >> 3) & 7 && a.flash == (v & 0x80 != 0)
            && (a.brightness as u8 == 1) == (v & 0x40 != 0),
            "C08: refresh decodes every attribute byte of every display bank into the shadow");
    }
    kani::cover!(off < 0x1800);
    kani::cover!(off >= 0x1800);
}

macro_rules! refresh {
    ($name:ident, $m:expr, $bank:expr, $local:expr) => {
        #[kani::proof]
        #[kani::unwind(16386)]
        #[kani::stub(libm::sqrt, sqrt_stub)]
        fn $name() {
            check($m, $bank, $local);
        }
    };
}
refresh!(refresh_shadow_48k, ZXMachine::Sinclair48K, 0, 0);
refresh!(refresh_shadow_128k_bank5, ZXMachine::Sinclair128K, 5, 0);
refresh!(refresh_shadow_128k_bank7, ZXMachine::Sinclair128K, 7, 1);
