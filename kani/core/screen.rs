//! K-core::screen - C08: refresh_memory_dependent_devices (iterator code, outside the Verus
//! subset) re-establishes shadow == RAM for every display bank: after bytes reached RAM behind the
//! bus (snapshot / screen file / poke) the shadow of bank 0 (48K) resp. banks 5 AND 7 (128K) holds
//! them, whichever bank is currently displayed.
use super::host::*;
use crate::utils::screen::{bitmap_col_rel, bitmap_line_rel};
use crate::zx::{controller::ZXController, machine::ZXMachine};

fn check(machine: ZXMachine, ram_bank: u8, local: usize) {
    let mut c = ZXController::<VHost>::new(&settings(machine, false, false, false), VContext);
    if machine == ZXMachine::Sinclair128K {
        // the other screen bank is the displayed one: refresh must not depend on what is displayed
        c.write_7ffd(if ram_bank == 5 { 0x08 } else { 0x00 });
    }
    // first / last display byte and first / last attribute byte of the bank (concrete offsets: a
    // symbolic offset did not finish in 40 min), symbolic values
    let offs: [usize; 4] = [0x0000, 0x17FF, 0x1800, 0x1AFF];
    let vals: [u8; 4] = kani::any();
    let mut k = 0;
    while k < 4 {
        c.memory.ram_page_data_mut(ram_bank)[offs[k]] = vals[k];
        k += 1;
    }
    c.refresh_memory_dependent_devices();
    let mut k = 0;
    while k < 4 {
        let off = offs[k];
        let v = vals[k];
        if off < 0x1800 {
            let idx = bitmap_line_rel(off as u16) * 32 + bitmap_col_rel(off as u16);
            kani::assert(c.screen.verif_bitmap(local, idx) == v, "C08: refresh copies the display bytes of every display bank into the shadow");
        } else {
            let a = c.screen.verif_attr(local, off - 0x1800);
            let ink: u8 = a.ink.into();
            let paper: u8 = a.paper.into();
            kani::assert(ink == v & 7 && paper == (v >> 3) & 7 && a.flash == (v & 0x80 != 0)
                && (a.brightness as u8 == 1) == (v & 0x40 != 0),
                "C08: refresh decodes the attribute bytes of every display bank into the shadow");
        }
        k += 1;
    }
    kani::cover!(true);
}

macro_rules! refresh {
    ($name:ident, $m:expr, $bank:expr, $local:expr) => {
        #[kani::proof]
        #[kani::unwind(16386)]
        #[kani::stub(libm::sqrt, sqrt_stub)]
        fn $name() {
            check($m, $bank, $local);
        }
    };
}
refresh!(refresh_shadow_48k, ZXMachine::Sinclair48K, 0, 0);
refresh!(refresh_shadow_128k_bank5, ZXMachine::Sinclair128K, 5, 0);
refresh!(refresh_shadow_128k_bank7, ZXMachine::Sinclair128K, 7, 1);
