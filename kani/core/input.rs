//! K-core::input - C17: input ports reflect exactly the controls held.
//! Finite domains, bit-precise; histories by invariant induction (each event operation is checked
//! from an arbitrary state satisfying the invariant, and re-establishes it).
use super::host::*;
use crate::zx::{
    controller::ZXController,
    joy::{
        kempston::{KempstonJoy, KempstonKey},
        sinclair::{sinclair_event_to_zx_key, SinclairJoyNum, SinclairKey},
    },
    keys::{CompoundKey, ZXKey},
    machine::ZXMachine,
    mouse::kempston::{KempstonMouse, KempstonMouseButton, KempstonMouseWheelDirection},
};

const KEYS: [ZXKey; 40] = [
    ZXKey::Shift, ZXKey::Z, ZXKey::X, ZXKey::C, ZXKey::V,
    ZXKey::A, ZXKey::S, ZXKey::D, ZXKey::F, ZXKey::G,
    ZXKey::Q, ZXKey::W, ZXKey::E, ZXKey::R, ZXKey::T,
    ZXKey::N1, ZXKey::N2, ZXKey::N3, ZXKey::N4, ZXKey::N5,
    ZXKey::N0, ZXKey::N9, ZXKey::N8, ZXKey::N7, ZXKey::N6,
    ZXKey::P, ZXKey::O, ZXKey::I, ZXKey::U, ZXKey::Y,
    ZXKey::Enter, ZXKey::L, ZXKey::K, ZXKey::J, ZXKey::H,
    ZXKey::Space, ZXKey::SymShift, ZXKey::M, ZXKey::N, ZXKey::B,
];

/// the 8x5 matrix of the statement: key index k sits in half-row k/5, bit k%5
fn any_key() -> (ZXKey, usize, u8) {
    let k: usize = kani::any();
    kani::assume(k < 40);
    (KEYS[k], k / 5, 1u8 << (k % 5))
}

fn any_compound() -> (CompoundKey, usize) {
    let k: usize = kani::any();
    kani::assume(k < 7);
    let key = match k {
        0 => CompoundKey::ArrowLeft,
        1 => CompoundKey::ArrowRight,
        2 => CompoundKey::ArrowUp,
        3 => CompoundKey::ArrowDown,
        4 => CompoundKey::CapsLock,
        5 => CompoundKey::Delete,
        _ => CompoundKey::Break,
    };
    (key, k)
}

/// matrix position (row, mask) of the primary key of compound key k: cursor keys are CAPS+5,8,7,6,
/// CAPS LOCK = CAPS+2, DELETE = CAPS+0, BREAK = CAPS+SPACE
fn compound_primary(k: usize) -> (usize, u8) {
    match k {
        0 => (3, 0x10), // 5
        1 => (4, 0x04), // 8
        2 => (4, 0x08), // 7
        3 => (4, 0x10), // 6
        4 => (3, 0x02), // 2
        5 => (4, 0x01), // 0
        _ => (7, 0x01), // SPACE
    }
}

fn new_ctl() -> ZXController<VHost> {
    ZXController::<VHost>::new(&settings(any_machine(), kani::any(), kani::any(), false), VContext)
}

#[kani::proof]
#[kani::unwind(17)]
#[kani::stub(libm::sqrt, sqrt_stub)]
fn key_table_and_send_key() {
    let mut c = new_ctl();
    let kb: [u8; 8] = kani::any();
    let ke: [u8; 8] = kani::any();
    let ks: [u8; 8] = kani::any();
    c.keyboard = kb;
    c.keyboard_extended = ke;
    c.keyboard_sinclair = ks;
    let (key, row, mask) = any_key();
    kani::assert(key.row_id() == row && key.mask() == mask, "C17: key matrix position (8 half-rows x 5 bits)");
    let pressed: bool = kani::any();
    c.send_key(key, pressed);
    let mut r = 0;
    while r < 8 {
        let exp = if r != row { kb[r] } else if pressed { kb[r] & !mask } else { kb[r] | mask };
        kani::assert(c.keyboard[r] == exp, "C17: send_key changes exactly its own matrix bit");
        r += 1;
    }
    kani::assert(c.keyboard_extended == ke && c.keyboard_sinclair == ks,
        "C17: a plain key event never touches the compound / Sinclair sources");
    kani::cover!(true);
}

#[kani::proof]
#[kani::unwind(17)]
#[kani::stub(libm::sqrt, sqrt_stub)]
fn sinclair_table_and_send() {
    let mut c = new_ctl();
    let kb: [u8; 8] = kani::any();
    let ke: [u8; 8] = kani::any();
    let ks: [u8; 8] = kani::any();
    c.keyboard = kb;
    c.keyboard_extended = ke;
    c.keyboard_sinclair = ks;
    let second: bool = kani::any();
    let ctl: u8 = kani::any();
    kani::assume(ctl < 5);
    let num = if second { SinclairJoyNum::Second } else { SinclairJoyNum::Fist };
    let key = match ctl {
        0 => SinclairKey::Left,
        1 => SinclairKey::Right,
        2 => SinclairKey::Down,
        3 => SinclairKey::Up,
        _ => SinclairKey::Fire,
    };
    // statement: joystick 1 = 6,7,8,9,0 and joystick 2 = 1,2,3,4,5 for left,right,down,up,fire
    let (row, mask): (usize, u8) = if !second {
        match ctl { 0 => (4, 0x10), 1 => (4, 0x08), 2 => (4, 0x04), 3 => (4, 0x02), _ => (4, 0x01) }
    } else {
        match ctl { 0 => (3, 0x01), 1 => (3, 0x02), 2 => (3, 0x04), 3 => (3, 0x08), _ => (3, 0x10) }
    };
    let zk = sinclair_event_to_zx_key(key, num);
    if second && ctl == 2 {
        kani::assert(zk.row_id() == row && zk.mask() == mask, "C17: Sinclair joystick 2 DOWN is key 3");
    } else {
        kani::assert(zk.row_id() == row && zk.mask() == mask, "C17: Sinclair joystick key table");
    }
    let pressed: bool = kani::any();
    c.send_sinclair_key(num, key, pressed);
    let (zr, zm) = (zk.row_id(), zk.mask());
    let mut r = 0;
    while r < 8 {
        let exp = if r != zr { ks[r] } else if pressed { ks[r] & !zm } else { ks[r] | zm };
        kani::assert(c.keyboard_sinclair[r] == exp, "C17: Sinclair event changes exactly its own matrix bit");
        r += 1;
    }
    kani::assert(c.keyboard == kb && c.keyboard_extended == ke,
        "C17: a Sinclair event never touches the other sources");
    kani::cover!(true);
}

fn compound_of(k: usize) -> CompoundKey {
    match k {
        0 => CompoundKey::ArrowLeft,
        1 => CompoundKey::ArrowRight,
        2 => CompoundKey::ArrowUp,
        3 => CompoundKey::ArrowDown,
        4 => CompoundKey::CapsLock,
        5 => CompoundKey::Delete,
        _ => CompoundKey::Break,
    }
}

/// expected compound-key matrix for a set of held compound keys: their primary keys, plus
/// CAPS SHIFT while any of them is held
fn expected_matrix(held: &[bool; 7]) -> [u8; 8] {
    let mut exp = [0xFFu8; 8];
    let mut any = false;
    let mut k = 0;
    while k < 7 {
        if held[k] {
            let (r, m) = compound_primary(k);
            exp[r] &= !m;
            any = true;
        }
        k += 1;
    }
    if any {
        exp[0] &= !0x01;
    }
    exp
}

/// the controller's bookkeeping of held compound keys, in terms of the code's own bit assignment
fn mask_of(held: &[bool; 7]) -> u32 {
    let mut m = 0;
    let mut k = 0;
    while k < 7 {
        if held[k] {
            m |= compound_of(k).modifier_mask();
        }
        k += 1;
    }
    m
}

/// Representation invariant: (matrix, bookkeeping mask) correspond to a set of held compound keys.
/// From every such state every press/release leads to the state of the updated set, so after any
/// event history the matrix shows exactly the held compound keys and CAPS SHIFT is released only
/// with the last one.
#[kani::proof]
#[kani::unwind(17)]
#[kani::stub(libm::sqrt, sqrt_stub)]
fn compound_keys() {
    let mut c = new_ctl();
    let kb: [u8; 8] = kani::any();
    let ks: [u8; 8] = kani::any();
    let held: [bool; 7] = kani::any();
    c.keyboard = kb;
    c.keyboard_sinclair = ks;
    c.keyboard_extended = expected_matrix(&held);
    c.caps_shift_modifier_mask = mask_of(&held);
    let (key, k) = any_compound();
    let pressed: bool = kani::any();
    c.send_compound_key(key, pressed);
    let mut held2 = held;
    held2[k] = pressed;
    kani::assert(c.keyboard_extended == expected_matrix(&held2),
        "C17: compound matrix == keys of all held compound keys + CAPS SHIFT while any is held");
    kani::assert(c.caps_shift_modifier_mask == mask_of(&held2), "C17: compound held-set bookkeeping consistent");
    kani::assert(c.keyboard == kb && c.keyboard_sinclair == ks,
        "C17: a compound event never touches the other sources");
    kani::cover!(pressed);
    kani::cover!(!pressed && held2 != [false; 7]);
}

#[kani::proof]
#[kani::unwind(9)]
fn kempston_joy() {
    let mut j = KempstonJoy::default();
    let st: u8 = kani::any();
    j.verif_set_state(st);
    let b: u8 = kani::any();
    kani::assume(b < 8);
    let key = match b {
        0 => KempstonKey::Right,
        1 => KempstonKey::Left,
        2 => KempstonKey::Down,
        3 => KempstonKey::Up,
        4 => KempstonKey::Fire,
        5 => KempstonKey::Ext1,
        6 => KempstonKey::Ext2,
        _ => KempstonKey::Ext3,
    };
    let pressed: bool = kani::any();
    j.key(key, pressed);
    // right/left/down/up/fire = bits 0..4, extra buttons above
    let exp = if pressed { st | (1 << b) } else { st & !(1 << b) };
    kani::assert(j.read() == exp, "C17: Kempston port = OR of held bits (right,left,down,up,fire,ext)");
    kani::cover!(true);
}

#[kani::proof]
#[kani::unwind(9)]
fn kempston_mouse() {
    let mut m = KempstonMouse::default();
    kani::assert(m.buttons_port == 0xFF, "C17: buttons released (active low) initially");
    let (b0, x0, y0): (u8, u8, u8) = (kani::any(), kani::any(), kani::any());
    m.buttons_port = b0;
    m.x_pos_port = x0;
    m.y_pos_port = y0;
    let which: u8 = kani::any();
    kani::assume(which < 3);
    if which == 0 {
        let b: u8 = kani::any();
        kani::assume(b < 4);
        let btn = match b {
            0 => KempstonMouseButton::Left,
            1 => KempstonMouseButton::Right,
            2 => KempstonMouseButton::Middle,
            _ => KempstonMouseButton::Additional,
        };
        let pressed: bool = kani::any();
        m.send_button(btn, pressed);
        let exp = if pressed { b0 & !(1 << b) } else { b0 | (1 << b) };
        kani::assert(m.buttons_port == exp, "C17: mouse buttons active-low, one bit each");
        kani::assert(m.x_pos_port == x0 && m.y_pos_port == y0, "C17: button leaves counters");
    } else if which == 1 {
        let up: bool = kani::any();
        m.send_wheel(if up { KempstonMouseWheelDirection::Up } else { KempstonMouseWheelDirection::Down });
        let w0 = b0 >> 4;
        let w1 = if up { w0.wrapping_add(1) } else { w0.wrapping_sub(1) } & 0x0F;
        kani::assert(m.buttons_port == (b0 & 0x0F) | (w1 << 4), "C17: 4-bit wheel counter modulo 16, buttons kept");
        kani::assert(m.x_pos_port == x0 && m.y_pos_port == y0, "C17: wheel leaves counters");
    } else {
        let (dx, dy): (i8, i8) = (kani::any(), kani::any());
        m.send_pos_diff(dx, dy);
        kani::assert(m.x_pos_port == x0.wrapping_add(dx as u8), "C17: X adds the horizontal delta mod 256");
        kani::assert(m.y_pos_port == y0.wrapping_sub(dy as u8), "C17: Y subtracts the vertical delta mod 256");
        kani::assert(m.buttons_port == b0, "C17: motion leaves buttons");
    }
    kani::cover!(true);
}

/// C17: the controller hands every mouse event to the mouse device when one is configured (the
/// device's own behaviour is `kempston_mouse`): same effect as on a twin device, and nothing
/// happens - in particular no panic - without a mouse.
#[kani::proof]
#[kani::unwind(9)]
#[kani::stub(libm::sqrt, sqrt_stub)]
fn mouse_events_reach_device() {
    let with_mouse: bool = kani::any();
    let mut c = ZXController::<VHost>::new(&settings(any_machine(), kani::any(), with_mouse, false), VContext);
    kani::assert(c.mouse.is_some() == with_mouse, "C17: mouse present iff enabled");
    let (b0, x0, y0): (u8, u8, u8) = (kani::any(), kani::any(), kani::any());
    let mut twin = KempstonMouse::default();
    twin.buttons_port = b0;
    twin.x_pos_port = x0;
    twin.y_pos_port = y0;
    if let Some(m) = &mut c.mouse {
        m.buttons_port = b0;
        m.x_pos_port = x0;
        m.y_pos_port = y0;
    }
    let which: u8 = kani::any();
    kani::assume(which < 3);
    if which == 0 {
        let b: u8 = kani::any();
        kani::assume(b < 4);
        let pressed: bool = kani::any();
        let btn = |k: u8| match k {
            0 => KempstonMouseButton::Left,
            1 => KempstonMouseButton::Right,
            2 => KempstonMouseButton::Middle,
            _ => KempstonMouseButton::Additional,
        };
        c.send_mouse_button(btn(b), pressed);
        twin.send_button(btn(b), pressed);
    } else if which == 1 {
        let up: bool = kani::any();
        let dir = |u: bool| if u { KempstonMouseWheelDirection::Up } else { KempstonMouseWheelDirection::Down };
        c.send_mouse_wheel(dir(up));
        twin.send_wheel(dir(up));
    } else {
        let (dx, dy): (i8, i8) = (kani::any(), kani::any());
        c.send_mouse_pos_diff(dx, dy);
        twin.send_pos_diff(dx, dy);
    }
    if let Some(m) = &c.mouse {
        kani::assert(m.buttons_port == twin.buttons_port && m.x_pos_port == twin.x_pos_port && m.y_pos_port == twin.y_pos_port,
            "C17: mouse event reaches the configured mouse");
    }
    kani::cover!(c.mouse.is_some());
    kani::cover!(c.mouse.is_none());
}

/// C17: the emulator hands a Kempston joystick event to the joystick when one is configured.
#[kani::proof]
#[kani::unwind(10)]
#[kani::stub(libm::sqrt, sqrt_stub)]
fn kempston_events_reach_device() {
    use crate::emulator::Emulator;
    let with_joy: bool = kani::any();
    let mut e = Emulator::<VHost>::new(settings(ZXMachine::Sinclair48K, with_joy, false, false), VContext).ok().unwrap();
    kani::assert(e.verif_ctl().kempston.is_some() == with_joy, "C17: joystick present iff enabled");
    let st: u8 = kani::any();
    if let Some(j) = &mut e.verif_ctl().kempston {
        j.verif_set_state(st);
    }
    let b: u8 = kani::any();
    kani::assume(b < 5);
    let key = |k: u8| match k {
        0 => KempstonKey::Right,
        1 => KempstonKey::Left,
        2 => KempstonKey::Down,
        3 => KempstonKey::Up,
        _ => KempstonKey::Fire,
    };
    let pressed: bool = kani::any();
    e.send_kempston_key(key(b), pressed);
    if let Some(j) = &e.verif_ctl().kempston {
        let exp = if pressed { st | (1 << b) } else { st & !(1 << b) };
        kani::assert(j.read() == exp, "C17: Kempston event reaches the configured joystick");
    }
    kani::cover!(with_joy);
    kani::cover!(!with_joy);
}
