
// ---- appended by /verif/kani/inject.py (scratch copy only, add-only) ----
#[cfg(kani)]
impl<H: Host> Emulator<H> {
    pub fn verif_cpu(&mut self) -> &mut Z80 { &mut self.cpu }
    pub fn verif_ctl(&mut self) -> &mut ZXController<H> { &mut self.controller }
}
