
// ---- appended by /verif/kani/inject.py (scratch copy only, add-only) ----
#[cfg(kani)]
impl<FB: FrameBuffer> ZXScreen<FB> {
    pub fn verif_bitmap(&self, local_bank: usize, index: usize) -> u8 { self.banks[local_bank].bitmap[index] }
    pub fn verif_attr(&self, local_bank: usize, index: usize) -> ZXAttribute { self.banks[local_bank].attributes[index] }
}
