
// ---- appended by /verif/kani/inject.py (scratch copy only, add-only) ----
#[cfg(kani)]
impl ZXMixer {
    pub fn verif_set_rate(&mut self, rate: usize) { self.sample_rate = rate; }
    pub fn verif_count(&self, f: f64) -> usize { self.sample_count_for_frame_fraction(f) }
    pub fn verif_len(&self) -> usize { self.ring_buffer.len() }
    pub fn verif_gen_sample(&mut self) -> SoundSample<f32> { self.gen_sample() }
    pub fn verif_last_sample(&self) -> SoundSample<f32> { self.last_sample }
    pub fn verif_set_sources(&mut self, use_beeper: bool, use_ay: bool) { self.use_beeper = use_beeper; self.use_ay = use_ay; }
}
