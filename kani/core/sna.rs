//! K-core::sna - C13: SNA save then load restores the machine; saving is side-effect free.
//! Real Emulator<VHost>, registers / latch / border fully symbolic.  RAM is carried by bank
//! markers: ram_page_data / ram_page_data_mut are stubbed by 4-byte stand-in pages (VPAGES) with
//! symbolic content, so the harness decides *which bank goes to which file position* for every
//! paging state; that a page slice is the 16 KiB of its bank is the page_slices harness.
use super::host::*;
use crate::{
    emulator::Emulator,
    error::IoError,
    host::{DataRecorder, FrameBuffer, Host, LoadableAsset, SeekFrom, SeekableAsset, Snapshot, SnapshotRecorder},
    zx::{controller::ZXController, machine::ZXMachine, video::colors::ZXColor},
};
use rustzx_z80::VRegs;

type R<T> = core::result::Result<T, IoError>;

/// In-memory SNA "file": the 27-byte header and the 4-byte 128K secondary header are kept
/// verbatim; of every 16 KiB page only the first byte is kept (a bank marker), which is enough to
/// decide that save and load agree on *which bank goes where* for every paging state. That a page
/// slice is exactly the 16 KiB of its bank is ZXMemory's Verus contract (unit ctl).
pub struct VFile {
    pub hdr: [u8; 27],
    pub tail: [u8; 4],
    pub tail_pos: usize,
    pub len: usize,
    pub pos: usize,
    pub marks: [u8; 9],
    /// last two bytes of each page (the 48K format keeps PC on the stack: with SP = 0x8000 that
    /// is the end of the page holding 0x4000-0x7FFF)
    pub ends: [[u8; 2]; 9],
    pub mark_pos: [usize; 9],
    pub n_pages: usize,
    pub bad_write: bool,
}

impl VFile {
    fn new() -> Self {
        VFile { hdr: [0; 27], tail: [0; 4], tail_pos: usize::MAX, len: 0, pos: 0, marks: [0; 9], ends: [[0; 2]; 9],
                mark_pos: [usize::MAX; 9], n_pages: 0, bad_write: false }
    }
}

impl DataRecorder for &mut VFile {
    fn write(&mut self, buf: &[u8]) -> R<usize> {
        let n = buf.len();
        if self.pos == 0 && n == 27 {
            self.hdr.copy_from_slice(buf);
        } else if n == 4 {
            self.tail.copy_from_slice(buf);
            self.tail_pos = self.pos;
        } else if n == 16384 && self.n_pages < 9 {
            self.marks[self.n_pages] = buf[0];
            self.ends[self.n_pages] = [buf[16382], buf[16383]];
            self.mark_pos[self.n_pages] = self.pos;
            self.n_pages += 1;
        } else {
            self.bad_write = true;
        }
        self.pos += n;
        self.len = self.pos;
        Ok(n)
    }
}

impl SeekableAsset for &mut VFile {
    fn seek(&mut self, pos: SeekFrom) -> R<usize> {
        self.pos = match pos {
            SeekFrom::Start(p) => p,
            SeekFrom::End(p) => (self.len as isize + p) as usize,
            SeekFrom::Current(p) => (self.pos as isize + p) as usize,
        };
        Ok(self.pos)
    }
}

impl LoadableAsset for &mut VFile {
    fn read(&mut self, buf: &mut [u8]) -> R<usize> {
        let n = buf.len();
        if self.pos == 0 && n == 27 {
            buf.copy_from_slice(&self.hdr);
        } else if self.pos == self.tail_pos && n == 4 {
            buf.copy_from_slice(&self.tail);
        } else if n == 16384 {
            // the page that was written at this file position
            let mut i = 0;
            while i < 9 {
                if self.mark_pos[i] == self.pos {
                    buf[0] = self.marks[i];
                    buf[16382] = self.ends[i][0];
                    buf[16383] = self.ends[i][1];
                }
                i += 1;
            }
        }
        self.pos += n;
        Ok(n)
    }
}

pub fn refresh_stub<H: Host>(_c: &mut ZXController<H>) {}

fn any_color() -> ZXColor {
    let b: u8 = kani::any();
    kani::assume(b < 8);
    ZXColor::from_bits(b)
}

fn roundtrip(machine: ZXMachine, fresh_receiver: bool, paged: u8) {
    let is48 = machine == ZXMachine::Sinclair48K;
    let mut e = Emulator::<VHost>::new(settings(machine, false, false, false), VContext).ok().unwrap();
    // ---- arbitrary machine state at save time
    // SP is fixed: save/load depend on it only through push_pc_to_stack / pop_pc_from_stack, whose
    // behaviour for every SP is covered by the K-z80 step groups (PUSH/RET); a symbolic SP makes
    // the 48 KiB RAM writes symbolic and the run infeasible (measured: > 25 min)
    let mut v: VRegs = kani::any();
    v.sp = 0x8000;
    let im: u8 = kani::any();
    kani::assume(im < 3);
    e.verif_cpu().regs.verif_set(&v);
    e.verif_cpu().set_im(im);
    let border: u8 = kani::any();
    kani::assume(border < 8);
    e.verif_ctl().set_border_color(0, ZXColor::from_bits(border));
    // bits 0-2 (the bank paged at 0xC000) are concrete per harness (a symbolic bank makes the page
    // slices symbolic and the run infeasible); screen / ROM / lock bits stay symbolic
    let latch: u8 = (kani::any::<u8>() & 0xF8) | paged;
    if !is48 {
        e.verif_ctl().write_7ffd(latch);
    }
    let pages: u8 = if is48 { 3 } else { 8 };
    // bank markers: first byte of bank k is k+1 (the 48K stack bytes are kept away from them)
    let mut k = 0u8;
    while k < pages {
        e.verif_ctl().memory.ram_page_data_mut(k)[0] = k + 1;
        k += 1;
    }

    // ---- save
    let mut file = VFile::new();
    let r = e.save_snapshot(SnapshotRecorder::Sna(&mut file));
    kani::assert(r.is_ok(), "C13: save succeeds");
    // saving is side-effect free
    let after = e.verif_cpu().regs.verif_get();
    kani::assert(after.pc == v.pc && after.sp == v.sp, "C13.save leaves PC and SP");
    kani::assert(after.a == v.a && after.f == v.f && after.b == v.b && after.c == v.c && after.d == v.d
        && after.e == v.e && after.h == v.h && after.l == v.l, "C13.save leaves main registers");
    kani::assert(after.a_alt == v.a_alt && after.f_alt == v.f_alt && after.b_alt == v.b_alt && after.c_alt == v.c_alt
        && after.d_alt == v.d_alt && after.e_alt == v.e_alt && after.h_alt == v.h_alt && after.l_alt == v.l_alt,
        "C13.save leaves alternate registers");
    kani::assert(after.ixh == v.ixh && after.ixl == v.ixl && after.iyh == v.iyh && after.iyl == v.iyl
        && after.i == v.i && after.r == v.r && after.iff1 == v.iff1 && after.iff2 == v.iff2, "C13.save leaves IX IY I R IFF");
    let mut k = 0u8;
    while k < pages {
        kani::assert(e.verif_ctl().memory.ram_page_data(k)[0] == k + 1, "C13.save leaves RAM");
        k += 1;
    }
    kani::assert(!file.bad_write, "C13.save writes header, secondary header and whole 16K pages only");
    if !is48 {
        kani::assert(e.verif_ctl().read_7ffd() == latch, "C13.save leaves the paging latch");
    }

    // ---- the receiver: same emulator after arbitrary disturbance, or a fresh one
    let mut e2 = if fresh_receiver {
        Emulator::<VHost>::new(settings(machine, false, false, false), VContext).ok().unwrap()
    } else {
        let d: VRegs = kani::any();
        e.verif_cpu().regs.verif_set(&d);
        e.verif_cpu().halted = kani::any();
        e.verif_cpu().skip_interrupt = kani::any();
        // possibly in the middle of a DD/FD prefix chain
        let pf: u8 = kani::any();
        kani::assume(pf == 0 || pf == 0xDD || pf == 0xFD || pf == 0xED);
        e.verif_cpu().verif_set_active_prefix(pf);
        let dim: u8 = kani::any();
        kani::assume(dim < 3);
        e.verif_cpu().set_im(dim);
        e.verif_ctl().set_border_color(0, any_color());
        if !is48 {
            // a different bank / screen / ROM, possibly locking paging (bank bits concrete, see above)
            let l2: u8 = (kani::any::<u8>() & 0xF8) | ((paged + 3) & 7);
            e.verif_ctl().write_7ffd(l2);
        }
        let mut k = 0u8;
        while k < pages {
            e.verif_ctl().memory.ram_page_data_mut(k)[0] = 0xEE;
            k += 1;
        }
        e
    };
    if fresh_receiver {
        // a fresh emulator has different RAM objects: re-point the tracked cell
        // (the file offsets recorded at save time are what matters)
    }

    // ---- load
    file.pos = 0;
    let r = e2.load_snapshot(Snapshot::Sna(&mut file));
    kani::assert(r.is_ok(), "C13: load of a saved snapshot succeeds");
    let g = e2.verif_cpu().regs.verif_get();
    kani::assert(g.a == v.a && g.f == v.f && g.b == v.b && g.c == v.c && g.d == v.d && g.e == v.e
        && g.h == v.h && g.l == v.l, "C13/C14.roundtrip main registers");
    kani::assert(g.a_alt == v.a_alt && g.f_alt == v.f_alt, "C13/C14.roundtrip AF'");
    kani::assert(g.b_alt == v.b_alt && g.c_alt == v.c_alt && g.d_alt == v.d_alt && g.e_alt == v.e_alt, "C13/C14.roundtrip BC' DE'");
    kani::assert(g.h_alt == v.h_alt && g.l_alt == v.l_alt, "C13/C14.roundtrip HL'");
    kani::assert(g.ixh == v.ixh && g.ixl == v.ixl && g.iyh == v.iyh && g.iyl == v.iyl, "C13/C14.roundtrip IX IY");
    kani::assert(g.sp == v.sp, "C13/C14.roundtrip SP");
    kani::assert(g.pc == v.pc, "C13/C14.roundtrip PC");
    kani::assert(g.i == v.i && g.r == v.r, "C13/C14.roundtrip I R");
    kani::assert(g.iff2 == v.iff2, "C13/C14.roundtrip IFF2");
    kani::assert(e2.verif_cpu().verif_im() == im, "C13/C14.roundtrip interrupt mode");
    let b2: u8 = e2.verif_ctl().border_color.into();
    kani::assert(b2 == border, "C13/C14.roundtrip border colour");
    if !is48 {
        kani::assert(e2.verif_ctl().read_7ffd() == latch, "C13/C14.roundtrip paging latch incl. lock bit");
        kani::assert(e2.verif_ctl().verif_paging_enabled() == (latch & 0x20 == 0), "C13/C14.roundtrip paging lock state");
    }
    let mut k = 0u8;
    while k < pages {
        kani::assert(e2.verif_ctl().memory.ram_page_data(k)[0] == k + 1,
            "C13/C14.roundtrip every RAM bank comes back into the same bank (marker byte)");
        k += 1;
    }
    kani::assert(!e2.verif_cpu().halted, "C13/C14.receiver halt state does not survive the load");
    kani::assert(e2.verif_cpu().verif_active_prefix() == 0 && !e2.verif_cpu().skip_interrupt,
        "C13/C14.receiver prefix / EI shadow does not survive the load");
    kani::cover!(true);
}

macro_rules! rt {
    ($name:ident, $m:expr, $fresh:expr, $paged:expr) => {
        #[kani::proof]
        #[kani::unwind(10)]
        #[kani::stub(libm::sqrt, sqrt_stub)]
        #[kani::stub(crate::zx::sound::mixer::ZXMixer::process, mixer_process_stub)]
        #[kani::stub(crate::zx::video::screen::ZXScreen::process_clocks, screen_process_clocks_stub)]
        #[kani::stub(crate::zx::controller::ZXController::refresh_memory_dependent_devices, refresh_stub)]
        fn $name() {
            roundtrip($m, $fresh, $paged);
        }
    };
}
rt!(sna_rt_48k_same, ZXMachine::Sinclair48K, false, 0);
rt!(sna_rt_48k_fresh, ZXMachine::Sinclair48K, true, 0);


// ------------------------------------------------------------------------------------------
// 128K: the page accessors are replaced by stand-ins over 8 x 4-byte "pages" (the real 128 KiB
// arrays with a symbolic paging state did not fit into memory: > 20 GB per CBMC process).
// What the stand-ins assume - a page accessor returns the bytes of exactly the requested bank -
// is proved by K-core::memory::page_slices. With them the paging latch is fully symbolic.
static mut VPAGES: [[u8; 4]; 8] = [[0; 4]; 8];
pub unsafe fn set_vpages(c: [[u8; 4]; 8]) {
    VPAGES = c;
}
pub fn page_stub(_m: &crate::zx::memory::ZXMemory, page: u8) -> &[u8] {
    unsafe { &VPAGES[(page & 7) as usize][..] }
}
pub fn page_mut_stub(_m: &mut crate::zx::memory::ZXMemory, page: u8) -> &mut [u8] {
    unsafe { &mut VPAGES[(page & 7) as usize][..] }
}

pub struct VFile4 {
    pub hdr: [u8; 27],
    pub tail: [u8; 4],
    pub tail_pos: usize,
    pub len: usize,
    pub pos: usize,
    pub pages: [[u8; 4]; 9],
    pub page_pos: [usize; 9],
    pub n_pages: usize,
    pub n_tails: usize,
    pub bad_write: bool,
}
impl DataRecorder for &mut VFile4 {
    fn write(&mut self, buf: &[u8]) -> R<usize> {
        let n = buf.len();
        if self.pos == 0 && n == 27 {
            self.hdr.copy_from_slice(buf);
        } else if n == 4 && self.n_pages == 3 && self.n_tails == 0 {
            // the secondary header comes after the three head banks
            self.tail.copy_from_slice(buf);
            self.tail_pos = self.pos;
            self.n_tails = 1;
        } else if n == 4 && self.n_pages < 9 {
            self.pages[self.n_pages].copy_from_slice(buf);
            self.page_pos[self.n_pages] = self.pos;
            self.n_pages += 1;
        } else {
            self.bad_write = true;
        }
        self.pos += n;
        self.len = self.pos;
        Ok(n)
    }
}
impl SeekableAsset for &mut VFile4 {
    fn seek(&mut self, pos: SeekFrom) -> R<usize> {
        // file offsets of the real format (16 KiB pages) are translated to this file's 4-byte pages
        self.pos = match pos {
            SeekFrom::Start(49179) => self.tail_pos,
            SeekFrom::Start(49183) => self.tail_pos + 4,
            SeekFrom::Start(p) => p,
            SeekFrom::End(_) => 131103, // reported size: a 128K snapshot
            SeekFrom::Current(p) => (self.pos as isize + p) as usize,
        };
        Ok(self.pos)
    }
}
impl LoadableAsset for &mut VFile4 {
    fn read(&mut self, buf: &mut [u8]) -> R<usize> {
        let n = buf.len();
        if self.pos == 0 && n == 27 {
            buf.copy_from_slice(&self.hdr);
        } else if self.pos == self.tail_pos && n == 4 {
            buf.copy_from_slice(&self.tail);
        } else if n == 4 {
            let mut i = 0;
            while i < 9 {
                if self.page_pos[i] == self.pos {
                    buf.copy_from_slice(&self.pages[i]);
                }
                i += 1;
            }
        }
        self.pos += n;
        Ok(n)
    }
}

fn roundtrip_128k(fresh_receiver: bool) {
    let machine = ZXMachine::Sinclair128K;
    let mut e = Emulator::<VHost>::new(settings(machine, false, false, false), VContext).ok().unwrap();
    let mut v: VRegs = kani::any();
    v.sp = 0x8000;
    let im: u8 = kani::any();
    kani::assume(im < 3);
    e.verif_cpu().regs.verif_set(&v);
    e.verif_cpu().set_im(im);
    let border: u8 = kani::any();
    kani::assume(border < 8);
    e.verif_ctl().set_border_color(0, ZXColor::from_bits(border));
    let latch: u8 = kani::any();
    e.verif_ctl().write_7ffd(latch);
    let content: [[u8; 4]; 8] = kani::any();
    unsafe { VPAGES = content; }

    let mut file = VFile4 { hdr: [0; 27], tail: [0; 4], tail_pos: usize::MAX, len: 0, pos: 0, pages: [[0; 4]; 9],
                            page_pos: [usize::MAX; 9], n_pages: 0, n_tails: 0, bad_write: false };
    let r = e.save_snapshot(SnapshotRecorder::Sna(&mut file));
    kani::assert(r.is_ok(), "C13: save succeeds");
    kani::assert(!file.bad_write, "C13.save writes header, three head banks, secondary header, remaining banks");
    let paged = latch & 7;
    kani::assert(file.n_pages == if paged == 5 || paged == 2 { 9 } else { 8 }, "C13.save stores every bank (5, 2, paged, then the rest)");
    kani::assert(unsafe { VPAGES == content }, "C13.save leaves RAM");
    kani::assert(e.verif_ctl().read_7ffd() == latch, "C13.save leaves the paging latch");
    let after = e.verif_cpu().regs.verif_get();
    kani::assert(after == v, "C13.save leaves the registers");

    let mut e2 = if fresh_receiver {
        Emulator::<VHost>::new(settings(machine, false, false, false), VContext).ok().unwrap()
    } else {
        let d: VRegs = kani::any();
        e.verif_cpu().regs.verif_set(&d);
        e.verif_cpu().halted = kani::any();
        e.verif_cpu().skip_interrupt = kani::any();
        let pf: u8 = kani::any();
        kani::assume(pf == 0 || pf == 0xDD || pf == 0xFD || pf == 0xED);
        e.verif_cpu().verif_set_active_prefix(pf);
        e.verif_ctl().set_border_color(0, any_color());
        let l2: u8 = kani::any();
        e.verif_ctl().write_7ffd(l2); // may lock paging
        e
    };
    unsafe { VPAGES = kani::any(); }

    file.pos = 0;
    let r = e2.load_snapshot(Snapshot::Sna(&mut file));
    kani::assert(r.is_ok(), "C13: load of a saved snapshot succeeds");
    let g = e2.verif_cpu().regs.verif_get();
    kani::assert(g.a == v.a && g.f == v.f && g.b == v.b && g.c == v.c && g.d == v.d && g.e == v.e
        && g.h == v.h && g.l == v.l, "C13/C14.roundtrip main registers");
    kani::assert(g.a_alt == v.a_alt && g.f_alt == v.f_alt && g.b_alt == v.b_alt && g.c_alt == v.c_alt
        && g.d_alt == v.d_alt && g.e_alt == v.e_alt && g.h_alt == v.h_alt && g.l_alt == v.l_alt, "C13/C14.roundtrip alternate registers");
    kani::assert(g.ixh == v.ixh && g.ixl == v.ixl && g.iyh == v.iyh && g.iyl == v.iyl, "C13/C14.roundtrip IX IY");
    kani::assert(g.sp == v.sp && g.pc == v.pc, "C13/C14.roundtrip SP PC");
    kani::assert(g.i == v.i && g.r == v.r && g.iff2 == v.iff2, "C13/C14.roundtrip I R IFF2");
    kani::assert(e2.verif_cpu().verif_im() == im, "C13/C14.roundtrip interrupt mode");
    let b2: u8 = e2.verif_ctl().border_color.into();
    kani::assert(b2 == border, "C13/C14.roundtrip border colour");
    kani::assert(e2.verif_ctl().read_7ffd() == latch, "C13/C14.roundtrip paging latch incl. lock bit");
    kani::assert(e2.verif_ctl().verif_paging_enabled() == (latch & 0x20 == 0), "C13/C14.roundtrip paging lock state");
    kani::assert(unsafe { VPAGES == content }, "C13/C14.roundtrip every RAM bank comes back into the same bank");
    kani::assert(!e2.verif_cpu().halted && e2.verif_cpu().verif_active_prefix() == 0 && !e2.verif_cpu().skip_interrupt,
        "C13/C14.receiver halt / prefix / EI shadow does not survive the load");
    kani::cover!(paged == 5);
    kani::cover!(paged == 0 && latch & 0x20 != 0);
}

macro_rules! rt128 {
    ($name:ident, $fresh:expr) => {
        #[kani::proof]
        #[kani::unwind(34)]
        #[kani::stub(libm::sqrt, sqrt_stub)]
        #[kani::stub(crate::zx::sound::mixer::ZXMixer::process, mixer_process_stub)]
        #[kani::stub(crate::zx::video::screen::ZXScreen::process_clocks, screen_process_clocks_stub)]
        #[kani::stub(crate::zx::controller::ZXController::refresh_memory_dependent_devices, refresh_stub)]
        #[kani::stub(crate::zx::memory::ZXMemory::ram_page_data, page_stub)]
        #[kani::stub(crate::zx::memory::ZXMemory::ram_page_data_mut, page_mut_stub)]
        fn $name() {
            roundtrip_128k($fresh);
        }
    };
}
rt128!(sna_rt128_same, false);
rt128!(sna_rt128_fresh, true);
