//! K-core::loaders - C14 (described state) and C15 (totality) for the snapshot loaders.
//! BOUNDED stand-ins where stated: SZX files of one block with <= 40 data bytes.
use super::host::*;
use super::sna::{page_mut_stub, page_stub, refresh_stub};
use crate::{
    emulator::Emulator,
    error::IoError,
    host::{LoadableAsset, SeekFrom, SeekableAsset, Snapshot},
    zx::{machine::ZXMachine, video::colors::ZXColor},
};
use rustzx_z80::VRegs;

type R<T> = core::result::Result<T, IoError>;

/// a small file held in an array; `len` is what the asset reports and serves
pub struct Small<const N: usize> {
    pub data: [u8; N],
    pub len: usize,
    pub pos: usize,
    /// injected fault: the k-th read/seek call fails (usize::MAX = never)
    pub fail_at: usize,
    pub calls: usize,
}
impl<const N: usize> Small<N> {
    fn tick(&mut self) -> bool {
        let f = self.calls == self.fail_at;
        self.calls += 1;
        f
    }
}
impl<const N: usize> SeekableAsset for &mut Small<N> {
    fn seek(&mut self, pos: SeekFrom) -> R<usize> {
        if self.tick() {
            return Err(IoError::HostAssetImplFailed);
        }
        let np = match pos {
            SeekFrom::Start(p) => p as isize,
            SeekFrom::End(p) => self.len as isize + p,
            SeekFrom::Current(p) => self.pos as isize + p,
        };
        if np < 0 {
            return Err(IoError::SeekBeforeStart);
        }
        self.pos = np as usize;
        Ok(self.pos)
    }
}
impl<const N: usize> LoadableAsset for &mut Small<N> {
    fn read(&mut self, buf: &mut [u8]) -> R<usize> {
        if self.tick() {
            return Err(IoError::HostAssetImplFailed);
        }
        if self.pos >= self.len {
            return Err(IoError::UnexpectedEof);
        }
        let n = core::cmp::min(buf.len(), self.len - self.pos);
        let mut i = 0;
        while i < n {
            buf[i] = if self.pos + i < N { self.data[self.pos + i] } else { 0 };
            i += 1;
        }
        self.pos += n;
        Ok(n)
    }
}

fn disturb(e: &mut Emulator<VHost>) {
    let d: VRegs = kani::any();
    e.verif_cpu().regs.verif_set(&d);
    e.verif_cpu().halted = kani::any();
    e.verif_cpu().skip_interrupt = kani::any();
    let pf: u8 = kani::any();
    kani::assume(pf == 0 || pf == 0xDD || pf == 0xFD || pf == 0xED);
    e.verif_cpu().verif_set_active_prefix(pf);
}

fn sna_case(machine: ZXMachine, len: usize, fail_at: usize) -> bool {
    let mut e = Emulator::<VHost>::new(settings(machine, false, false, false), VContext).ok().unwrap();
    disturb(&mut e);
    // with an injected asset failure the header contents do not matter (every header is covered by
    // sna_header_*): a fixed header with a symbolic interrupt-mode byte keeps the 8 loads cheap
    let data: [u8; 32] = if fail_at == usize::MAX {
        kani::any()
    } else {
        let mut d = [0u8; 32];
        d[25] = kani::any();
        d[23] = 0x00;
        d[24] = 0x80;
        d
    };
    let mut f = Small::<32> { data, len, pos: 0, fail_at, calls: 0 };
    let h = f.data;
    let r = e.load_snapshot(Snapshot::Sna(&mut f));
    let file128 = len > 49179;
    if len < 49179 {
        kani::assert(r.is_err(), "C15: truncated SNA is an error");
    }
    if len >= 49179 && file128 != (machine == ZXMachine::Sinclair128K) {
        kani::assert(r.is_err(), "C14: a snapshot of the other machine model is rejected");
    }
    if fail_at < 3 {
        kani::assert(r.is_err(), "C15: an asset failure surfaces as Err");
    }
    if h[25] & 3 == 3 {
        kani::assert(r.is_err(), "C15: interrupt mode 3 is rejected, not a panic");
    }
    let right_size = (len == 49179 && machine == ZXMachine::Sinclair48K) || (len == 131103 && machine == ZXMachine::Sinclair128K);
    if right_size && fail_at == usize::MAX && h[25] & 3 != 3 {
        kani::assert(r.is_ok(), "C14: a well-formed SNA of the matching model loads");
    }
    if r.is_ok() {
        let g = e.verif_cpu().regs.verif_get();
        kani::assert(g.i == h[0], "C14.sna I");
        kani::assert(g.l_alt == h[1] && g.h_alt == h[2] && g.e_alt == h[3] && g.d_alt == h[4]
            && g.c_alt == h[5] && g.b_alt == h[6] && g.f_alt == h[7] && g.a_alt == h[8], "C14.sna alternate registers");
        kani::assert(g.l == h[9] && g.h == h[10] && g.e == h[11] && g.d == h[12] && g.c == h[13] && g.b == h[14], "C14.sna HL DE BC");
        kani::assert(g.iyl == h[15] && g.iyh == h[16] && g.ixl == h[17] && g.ixh == h[18], "C14.sna IY IX");
        kani::assert(g.iff2 == (h[19] & 4 != 0) && g.iff1 == g.iff2, "C14.sna IFF");
        kani::assert(g.r == h[20] && g.f == h[21] && g.a == h[22], "C14.sna R AF");
        kani::assert(e.verif_cpu().verif_im() == h[25] & 3, "C14.sna interrupt mode");
        let b: u8 = e.verif_ctl().border_color.into();
        kani::assert(b == h[26] & 7, "C14.sna border");
        kani::assert(!e.verif_cpu().halted && !e.verif_cpu().skip_interrupt && e.verif_cpu().verif_active_prefix() == 0,
            "C14.sna independent of what the CPU was doing before");
        if !file128 {
            kani::assert(g.sp == ((h[23] as u16) | ((h[24] as u16) << 8)).wrapping_add(2), "C14.sna 48K: PC popped from the stack");
        } else {
            kani::assert(g.sp == (h[23] as u16) | ((h[24] as u16) << 8), "C14.sna 128K SP");
        }
    }
    r.is_ok()
}

macro_rules! sna_h {
    ($name:ident, $body:expr) => {
        #[kani::proof]
        #[kani::unwind(34)]
        #[kani::stub(libm::sqrt, sqrt_stub)]
        #[kani::stub(crate::zx::sound::mixer::ZXMixer::process, mixer_process_stub)]
        #[kani::stub(crate::zx::video::screen::ZXScreen::process_clocks, screen_process_clocks_stub)]
        #[kani::stub(crate::zx::controller::ZXController::refresh_memory_dependent_devices, refresh_stub)]
        #[kani::stub(crate::zx::memory::ZXMemory::ram_page_data, page_stub)]
        #[kani::stub(crate::zx::memory::ZXMemory::ram_page_data_mut, page_mut_stub)]
        fn $name() {
            $body
        }
    };
}
// C14: every header, every prior CPU state, matching model, healthy asset
// (vacuity guards: both outcomes are reachable - IM 3 headers are the rejected ones)
sna_h!(sna_header_48k, {
    let ok = sna_case(ZXMachine::Sinclair48K, 49179, usize::MAX);
    kani::cover!(ok);
    kani::cover!(!ok);
});
sna_h!(sna_header_128k, {
    let ok = sna_case(ZXMachine::Sinclair128K, 131103, usize::MAX);
    kani::cover!(ok);
    kani::cover!(!ok);
});
// C14/C15: model mismatch and truncated files: every machine x size class (concrete cases, the
// header bytes stay symbolic; a symbolic size made the run infeasible: 12 GB)
sna_h!(sna_rejects, {
    let cases: [(bool, usize); 8] = [(false, 131103), (false, 147487), (true, 49179), (false, 49178), (true, 49178),
                                     (false, 27), (true, 26), (false, 0)];
    let mut i = 0;
    while i < 8 {
        let m = if cases[i].0 { ZXMachine::Sinclair128K } else { ZXMachine::Sinclair48K };
        let ok = sna_case(m, cases[i].1, usize::MAX);
        kani::cover!(!ok);
        i += 1;
    }
});
// C15: a read/seek failure injected at each of the first 8 asset calls
sna_h!(sna_faults_48k, {
    let mut k = 0;
    while k < 8 {
        let ok = sna_case(ZXMachine::Sinclair48K, 49179, k);
        kani::cover!(!ok);
        k += 1;
    }
});
sna_h!(sna_faults_128k, {
    let mut k = 0;
    while k < 8 {
        let ok = sna_case(ZXMachine::Sinclair128K, 131103, k);
        kani::cover!(!ok);
        k += 1;
    }
});

/// C15 (+C14 for Z80R), SZX: header + ONE block. Block id and sizes are enumerated concretely
/// (8 ids x declared size / real length in {0, min-1, min, 40} incl. a declared size larger than
/// the file); block content, machine id byte and prior CPU state are symbolic: the loader returns
/// Ok or Err and never panics / indexes out of range / over-allocates.
/// BOUNDED: one block, <= 40 data bytes, stored (not zlib) RAM pages, 4-byte stand-in pages.
fn szx_case(which: usize, size: u32, datalen: usize) {
    let machine = ZXMachine::Sinclair48K;
    let mut e = Emulator::<VHost>::new(settings(machine, true, true, false), VContext).ok().unwrap();
    disturb(&mut e);
    let mut data: [u8; 56] = kani::any();
    data[0] = b'Z';
    data[1] = b'X';
    data[2] = b'S';
    data[3] = b'T';
    let ids: [[u8; 4]; 8] = [*b"Z80R", *b"SPCR", *b"AY\0\0", *b"KEYB", *b"AMXM", *b"CRTR", *b"RAMP", *b"JUNK"];
    let id = ids[which];
    data[8] = id[0];
    data[9] = id[1];
    data[10] = id[2];
    data[11] = id[3];
    data[12] = size as u8;
    data[13] = (size >> 8) as u8;
    data[14] = (size >> 16) as u8;
    data[15] = (size >> 24) as u8;
    if which == 6 {
        data[16] &= 0xFE; // stored page (zlib inflate is an assumed dependency)
    }
    let len = 16 + datalen;
    let mut f = Small::<56> { data, len, pos: 0, fail_at: usize::MAX, calls: 0 };
    let r = e.load_snapshot(Snapshot::Szx(&mut f));
    if (size as usize) > datalen {
        kani::assert(r.is_err(), "C15: a block larger than the rest of the file is rejected (no over-allocation)");
    }
    if r.is_ok() && which == 0 && size >= 37 {
        let b = &data[16..];
        let g = e.verif_cpu().regs.verif_get();
        kani::assert(g.f == b[0] && g.a == b[1] && g.c == b[2] && g.b == b[3] && g.e == b[4] && g.d == b[5]
            && g.l == b[6] && g.h == b[7], "C14.szx Z80R main registers");
        kani::assert(g.f_alt == b[8] && g.a_alt == b[9] && g.c_alt == b[10] && g.b_alt == b[11] && g.e_alt == b[12]
            && g.d_alt == b[13] && g.l_alt == b[14] && g.h_alt == b[15], "C14.szx Z80R alternate registers");
        kani::assert(g.ixl == b[16] && g.ixh == b[17] && g.iyl == b[18] && g.iyh == b[19], "C14.szx Z80R IX IY");
        kani::assert(g.sp == (b[20] as u16) | ((b[21] as u16) << 8), "C14.szx Z80R SP");
        kani::assert(g.i == b[24] && g.r == b[25] && g.iff1 == (b[26] > 0) && g.iff2 == (b[27] > 0), "C14.szx Z80R I R IFF");
        kani::assert(e.verif_cpu().verif_im() == b[28], "C14.szx Z80R interrupt mode");
        kani::assert(e.verif_cpu().skip_interrupt == (b[34] & 1 != 0) && e.verif_cpu().halted == (b[34] & 2 != 0),
            "C14.szx Z80R EI-pending / halted flags");
        kani::assert(e.verif_ctl().frame_clocks < machine.specs().clocks_frame, "C15: frame clock stays inside the frame");
    }
}

macro_rules! szx_h {
    ($name:ident, $which:expr, $min:expr) => {
        #[kani::proof]
        #[kani::unwind(42)]
        #[kani::stub(libm::sqrt, sqrt_stub)]
        #[kani::stub(crate::zx::sound::mixer::ZXMixer::process, mixer_process_stub)]
        #[kani::stub(crate::zx::video::screen::ZXScreen::process_clocks, screen_process_clocks_stub)]
        #[kani::stub(crate::zx::controller::ZXController::refresh_memory_dependent_devices, refresh_stub)]
        #[kani::stub(crate::zx::memory::ZXMemory::ram_page_data, page_stub)]
        #[kani::stub(crate::zx::memory::ZXMemory::ram_page_data_mut, page_mut_stub)]
        fn $name() {
            let min: u32 = $min;
            szx_case($which, 0, 0);
            if min > 0 {
                szx_case($which, min - 1, (min - 1) as usize);
            }
            szx_case($which, min, min as usize);
            szx_case($which, 40, 40);
            szx_case($which, 0x8000_0000, 40);
        }
    };
}
szx_h!(szx_z80r, 0, 37);
szx_h!(szx_spcr, 1, 8);
szx_h!(szx_ay, 2, 18);
szx_h!(szx_keyb, 3, 5);
szx_h!(szx_amxm, 4, 1);
szx_h!(szx_crtr, 5, 37);
szx_h!(szx_ramp, 6, 7);
szx_h!(szx_unknown, 7, 0);
