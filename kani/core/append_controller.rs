
// ---- appended by /verif/kani/inject.py (scratch copy only, add-only) ----
#[cfg(kani)]
impl<H: Host> ZXController<H> {
    pub fn verif_floating_bus(&self) -> u8 { self.floating_bus_value() }
    pub fn verif_passed_frames(&self) -> usize { self.passed_frames }
    pub fn verif_paging_enabled(&self) -> bool { self.paging_enabled }
    pub fn verif_screen_bank(&self) -> u8 { self.screen_bank }
    pub fn verif_events_bits(&self) -> u8 { self.events.bits() }
    pub fn verif_frame_pos(&self) -> f64 { self.frame_pos() }
}
