//! K-core::ctl_io - port reads on the real controller (C07), ROM window (C06)
use super::host::*;
use crate::zx::{controller::ZXController, machine::ZXMachine};
use rustzx_z80::Z80Bus;

fn any_arr8() -> [u8; 8] {
    kani::any()
}

/// C07 (read side): for every port, every device configuration and keyboard/mouse/joystick/AY
/// state: the value comes from the device the statement names, no device state changes, the
/// extender sees exactly the ports it claims, and the cycle takes 4 T (uncontended clock).
#[kani::proof]
#[kani::unwind(17)]
#[kani::stub(libm::sqrt, sqrt_stub)]
#[kani::stub(crate::zx::sound::mixer::ZXMixer::process, mixer_process_stub)]
#[kani::stub(crate::zx::video::screen::ZXScreen::process_clocks, screen_process_clocks_stub)]
fn read_io_routing() {
    let machine = any_machine();
    let kemp: bool = kani::any();
    let mouse: bool = kani::any();
    let mut c = ZXController::<VHost>::new(&settings(machine, kemp, mouse, false), VContext);
    let has_ext: bool = kani::any();
    let claims: bool = kani::any();
    let answer: u8 = kani::any();
    if has_ext {
        c.io_extender = Some(VExt { claims, answer, n_read: 0, n_write: 0, last_port: 0, last_data: 0 });
    }
    c.keyboard = any_arr8();
    c.keyboard_extended = any_arr8();
    c.keyboard_sinclair = any_arr8();
    let (mb, mx, my): (u8, u8, u8) = (kani::any(), kani::any(), kani::any());
    if let Some(m) = &mut c.mouse {
        m.buttons_port = mb;
        m.x_pos_port = mx;
        m.y_pos_port = my;
    }
    let ks: u8 = kani::any();
    if let Some(k) = &mut c.kempston {
        k.verif_set_state(ks);
    }
    let regs: [u8; 16] = kani::any();
    let cur: usize = kani::any();
    kani::assume(cur < 16);
    c.mixer.ay.verif_set(regs, cur);
    // early in the frame: no contention, no picture fetch, no render work
    c.frame_clocks = 100;
    let kb = (c.keyboard, c.keyboard_extended, c.keyboard_sinclair);
    let border_before: u8 = c.border_color.into();
    let latch = c.read_7ffd();

    let port: u16 = kani::any();
    let r = c.read_io(port);

    let ext = has_ext && claims;
    let hi = (port >> 8) as u8;
    // device-select predicates from the statement
    let ula = port & 1 == 0;
    let ay = port & 0xC002 == 0xC000;
    let kj = kemp && (port & 0x00E0 == 0);
    let m_btn = mouse && (port & 0x0121 == 0x0001); // xxFADF-style: A0=1, A5=0, A8=0
    let m_x = mouse && (port & 0x0521 == 0x0101); // xxFBDF: A8=1, A10=0
    let m_y = mouse && (port & 0x0521 == 0x0501); // xxFFDF: A8=1, A10=1
    let n = ext as u8 + ula as u8 + ay as u8 + kj as u8 + (m_btn || m_x || m_y) as u8;

    // timing: 4 T
    kani::assert(c.frame_clocks == 104, "C04/C07: uncontended port read takes 4 T");
    // extender receives exactly the ports it claims
    if let Some(e) = &c.io_extender {
        kani::assert(e.n_write == 0, "C07: read never writes the extender");
        kani::assert(e.n_read == (claims as u8), "C07: extender read iff it claims the port");
        if claims {
            kani::assert(e.last_port == port, "C07: extender gets the port address");
        }
    }
    if n == 1 {
        if ext {
            kani::assert(r == answer, "C07: claimed port returns the extender's answer");
        } else if ula {
            let mut exp = 0xFFu8;
            let mut i = 0;
            while i < 8 {
                if (hi >> i) & 1 == 0 {
                    exp &= kb.0[i] & kb.1[i] & kb.2[i];
                }
                i += 1;
            }
            // empty tape: EAR low -> bit 6 toggled (issue-2 behaviour of this emulator)
            kani::assert(r == exp ^ 0x40, "C07: ULA read = AND of selected half-rows, EAR on bit 6");
        } else if ay {
            kani::assert(r == regs[cur], "C07/C18: AY read-back returns the selected register");
        } else if kj {
            kani::assert(r == ks, "C07: Kempston joystick port");
        } else if m_btn {
            kani::assert(r == mb, "C07: Kempston mouse buttons port");
        } else if m_x {
            kani::assert(r == mx, "C07: Kempston mouse X port");
        } else if m_y {
            kani::assert(r == my, "C07: Kempston mouse Y port");
        }
    }
    if n == 0 {
        kani::assert(r == 0xFF, "C07: unclaimed port returns the floating bus (0xFF outside fetch)");
    }
    // no device state changes on a read
    kani::assert(c.keyboard == kb.0 && c.keyboard_extended == kb.1 && c.keyboard_sinclair == kb.2,
        "C07: read leaves keyboard matrices");
    kani::assert(c.mixer.ay.verif_regs() == regs && c.mixer.ay.verif_current_reg() == cur,
        "C07: read leaves AY registers");
    let border_after: u8 = c.border_color.into();
    kani::assert(border_after == border_before && c.read_7ffd() == latch, "C07: read leaves border and latch");
    if let Some(m) = &c.mouse {
        kani::assert(m.buttons_port == mb && m.x_pos_port == mx && m.y_pos_port == my, "C07: read leaves mouse");
    }
    if let Some(k) = &c.kempston {
        kani::assert(k.verif_state() == ks, "C07: read leaves joystick");
    }
    kani::cover!(n == 1 && ext);
    kani::cover!(n == 1 && ula);
    kani::cover!(n == 1 && ay);
    kani::cover!(n == 1 && kj);
    kani::cover!(n == 1 && m_x);
    kani::cover!(n == 0);
}

/// C07 (read side, floating bus): a read from a port no device claims, performed while the ULA
/// fetches picture data, returns the display / attribute byte being fetched - for every
/// unclaimed port (with an uncontended high byte, so the read happens 3 T after the cycle
/// starts), every device configuration, at the bitmap and the attribute phase of a fetch cycle.
/// (The fetch-window function for all clocks is the Verus contract of floating_bus_value.)
#[kani::proof]
#[kani::unwind(17)]
#[kani::stub(libm::sqrt, sqrt_stub)]
#[kani::stub(crate::zx::sound::mixer::ZXMixer::process, mixer_process_stub)]
#[kani::stub(crate::zx::video::screen::ZXScreen::process_clocks, screen_process_clocks_stub)]
fn read_io_floating() {
    let machine = any_machine();
    let kemp: bool = kani::any();
    let mouse: bool = kani::any();
    let mut c = ZXController::<VHost>::new(&settings(machine, kemp, mouse, false), VContext);
    let has_ext: bool = kani::any();
    if has_ext {
        c.io_extender = Some(VExt { claims: false, answer: kani::any(), n_read: 0, n_write: 0, last_port: 0, last_data: 0 });
    }
    let (b1, b2): (u8, u8) = (kani::any(), kani::any());
    c.write_internal(0x4000, b1); // first display byte
    c.write_internal(0x5800, b2); // first attribute byte
    // the port cycle reads the bus 3 T after it starts: land on T = first_pixel + 2 (bitmap fetch
    // of row 0, column 0) or + 3 (attribute fetch)
    let first_pixel = machine.specs().clocks_first_pixel;
    let attr_phase: bool = kani::any();
    c.frame_clocks = first_pixel - 1 + attr_phase as usize;
    let port: u16 = kani::any();
    let ula = port & 1 == 0;
    let ay = port & 0xC002 == 0xC000;
    let kj = kemp && (port & 0x00E0 == 0);
    let ms = mouse && (port & 0x0021 == 0x0001);
    kani::assume(!ula && !ay && !kj && !ms);
    kani::assume(port & 0xC000 != 0x4000); // high byte not in contended RAM
    let r = c.read_io(port);
    kani::assert(c.frame_clocks == first_pixel - 1 + attr_phase as usize + 4, "C04/C07: uncontended port read takes 4 T");
    kani::assert(r == if attr_phase { b2 } else { b1 },
        "C07: unclaimed port returns the display/attribute byte the ULA is fetching");
    kani::cover!(r != 0xFF);
}

/// C10 (trap condition): the fast-load request is raised exactly when execution reaches LD-BREAK
/// (0x056B) with the 48K BASIC ROM paged in (48K: the ROM; 128K: ROM 1), for every address,
/// machine and paging state.
#[kani::proof]
#[kani::unwind(17)]
#[kani::stub(libm::sqrt, sqrt_stub)]
fn pc_callback_trap() {
    let machine = any_machine();
    let mut c = ZXController::<VHost>::new(&settings(machine, false, false, false), VContext);
    let latch: u8 = kani::any();
    c.write_7ffd(latch); // ignored on the 48K
    let addr: u16 = kani::any();
    kani::assert(c.verif_events_bits() == 0, "no event pending initially");
    c.pc_callback(addr);
    let basic_rom = machine == ZXMachine::Sinclair48K || latch & 0x10 != 0;
    let expect = addr == 0x056B && basic_rom;
    kani::assert((c.verif_events_bits() & 1 != 0) == expect,
        "C10: fast-load trap raised iff PC = 0x056B and the 48K BASIC ROM is paged in");
    kani::assert(c.verif_events_bits() & !1 == 0, "C10: no other event without a debug interface");
    kani::cover!(expect);
}

/// C16 (breakpoint stops): with a debug interface installed, every instruction address is put to
/// it and the breakpoint event is raised exactly when it says so - next to, not instead of, the
/// fast-load trap.
#[kani::proof]
#[kani::unwind(17)]
#[kani::stub(libm::sqrt, sqrt_stub)]
fn pc_callback_breakpoint() {
    let machine = any_machine();
    let mut c = ZXController::<VHost>::new(&settings(machine, false, false, false), VContext);
    let answer: bool = kani::any();
    c.debug_interface = Some(VDebug { answer, asked: None });
    let addr: u16 = kani::any();
    c.pc_callback(addr);
    let trap = addr == 0x056B && (machine == ZXMachine::Sinclair48K);
    kani::assert(c.debug_interface.as_ref().unwrap().asked == Some(addr), "C16: the debugger is asked about every instruction address");
    kani::assert((c.verif_events_bits() & 2 != 0) == answer, "C16: breakpoint event raised iff the debugger says so");
    kani::assert((c.verif_events_bits() & 1 != 0) == trap, "C10: fast-load trap independent of the debugger");
    kani::cover!(answer && trap);
}

/// C06 (ROM contents): with the embedded ROM set 0x0000-0x3FFF reads the ROM image of the machine
/// (128K: the image selected by bit 4 of the paging latch) and ignores writes. Machines, ROM
/// select and a few addresses (first, last, two inner ones) are enumerated concretely - the copy
/// is a single copy_from_slice of the whole page, whose range is K-core::memory::page_slices';
/// a symbolic address into the 16 KiB images exhausted memory (11 GB).
fn rom_case(machine: ZXMachine, latch: u8) {
    let mut c = ZXController::<VHost>::new(&settings(machine, false, false, true), VContext);
    c.write_7ffd(latch);
    let image: &[u8; 16 * 1024] = match machine {
        ZXMachine::Sinclair48K => crate::zx::roms::ROM_48K,
        ZXMachine::Sinclair128K => {
            if latch & 0x10 != 0 { crate::zx::roms::ROM_128K_1 } else { crate::zx::roms::ROM_128K_0 }
        }
    };
    let addrs: [u16; 4] = [0x0000, 0x0038, 0x056B, 0x3FFF];
    let v: u8 = kani::any();
    let mut k = 0;
    while k < 4 {
        let a = addrs[k];
        let before = c.read_internal(a);
        kani::assert(before == image[a as usize], "C06: ROM window reads the ROM image selected for the machine");
        c.write_internal(a, v);
        kani::assert(c.read_internal(a) == before, "C06: ROM window ignores writes");
        k += 1;
    }
}

#[kani::proof]
#[kani::unwind(17)]
#[kani::stub(libm::sqrt, sqrt_stub)]
#[kani::stub(crate::zx::sound::mixer::ZXMixer::process, mixer_process_stub)]
#[kani::stub(crate::zx::video::screen::ZXScreen::process_clocks, screen_process_clocks_stub)]
fn rom_window() {
    rom_case(ZXMachine::Sinclair48K, 0x00);
    rom_case(ZXMachine::Sinclair48K, 0x10);
    rom_case(ZXMachine::Sinclair128K, 0x00);
    rom_case(ZXMachine::Sinclair128K, 0x10);
    rom_case(ZXMachine::Sinclair128K, 0x37);
    kani::cover!(true);
}

/// C14 (second engine for the Verus contract of `ZXAyChip::set_regs`, which a rewrite with iterator
/// adapters takes out of the Verus subset): restoring the AY register file from a snapshot makes every
/// register read back as given and leaves the register *selection* alone - the SZX AY block selects
/// `chCurrentRegister` before it restores the registers. Every register file, every prior selection.
#[kani::proof]
#[kani::unwind(17)]
#[kani::stub(libm::sqrt, sqrt_stub)]
fn ay_set_regs_selection() {
    let mut c = ZXController::<VHost>::new(&settings(ZXMachine::Sinclair128K, false, false, false), VContext);
    let before: [u8; 16] = kani::any();
    let cur: usize = kani::any();
    kani::assume(cur < 16);
    c.mixer.ay.verif_set(before, cur);
    let regs: [u8; 16] = kani::any();
    c.mixer.ay.set_regs(&regs);
    kani::assert(c.mixer.ay.verif_current_reg() == cur, "C14: restoring the AY registers keeps the selected register");
    kani::assert(c.mixer.ay.verif_regs() == regs, "C14: every AY register reads back as restored");
    kani::cover!(true);
}

/// C06 (bit-precise twin of the Verus contract of `write_7ffd`; every 128K paging state x every value):
/// the state before is any state satisfying the paging invariant (reached by restoring any latch value),
/// afterwards the map is again the function of the latch the statement gives, an accepted write is the
/// latch, a locked machine ignores the write. Used by `check` to tell a Verus proof that merely got
/// stuck (needs a bit-vector hint after a harmless rewrite) from a refutation.
#[kani::proof]
#[kani::unwind(17)]
#[kani::stub(libm::sqrt, sqrt_stub)]
fn write_7ffd_paging_twin() {
    use crate::zx::memory::Page;
    let mut c = ZXController::<VHost>::new(&settings(ZXMachine::Sinclair128K, false, false, false), VContext);
    let l0: u8 = kani::any();
    c.restore_7ffd(l0);
    kani::assert(c.memory.get_page(0xC000) == Page::Ram(l0 & 7) && c.memory.get_page(0) == Page::Rom((l0 >> 4) & 1)
        && c.verif_paging_enabled() == (l0 & 0x20 == 0), "C06: twin start state satisfies the paging invariant");
    let enabled = c.verif_paging_enabled();
    let clk = c.frame_clocks;
    let val: u8 = kani::any();
    c.write_7ffd(val);
    let latch = c.read_7ffd();
    kani::assert(latch == if enabled { val } else { l0 }, "C06: an accepted paging write is the latch, a locked machine ignores it");
    kani::assert(c.memory.get_page(0xC000) == Page::Ram(latch & 7), "C06: 0xC000 shows the bank the latch selects");
    kani::assert(c.memory.get_page(0x0000) == Page::Rom((latch >> 4) & 1), "C06: ROM page follows latch bit 4");
    kani::assert(c.memory.get_page(0x4000) == Page::Ram(5) && c.memory.get_page(0x8000) == Page::Ram(2), "C06: fixed windows stay banks 5 and 2");
    kani::assert(c.verif_paging_enabled() == (latch & 0x20 == 0), "C06: paging is enabled exactly while latch bit 5 is clear");
    kani::assert(c.verif_screen_bank() == if latch & 0x08 == 0 { 5 } else { 7 }, "C06: displayed bank follows latch bit 3");
    kani::assert(c.frame_clocks == clk, "C06: a paging write takes no time by itself");
    kani::cover!(true);
}
