APPENDS = {
    "rustzx-core/src/lib.rs": [
        "\n#[cfg(kani)]\n#[path = \"@VERIF@/kani/core/mod.rs\"]\nmod verif;\n"
    ],
}
