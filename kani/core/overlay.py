APPENDS = {
    "rustzx-core/src/lib.rs": [
        "\n#[cfg(kani)]\n#[path = \"@VERIF@/kani/core/mod.rs\"]\nmod verif;\n"
    ],
    "rustzx-core/src/zx/sound/ay.rs": ["kani/core/append_ay.rs"],
    "rustzx-core/src/zx/controller.rs": ["kani/core/append_controller.rs"],
    "rustzx-core/src/zx/joy/kempston.rs": ["kani/core/append_kempston.rs"],
    "rustzx-core/src/emulator/mod.rs": ["kani/core/append_emulator.rs"],
    "rustzx-core/src/zx/sound/mixer.rs": ["kani/core/append_mixer.rs"],
    "rustzx-core/src/zx/video/screen.rs": ["kani/core/append_screen.rs"],
    "rustzx-core/src/zx/tape/tap.rs": ["replay/tape_native.rs"],
}

NEW_FILES = {
    "rustzx-core/examples/verif_contention.rs": "include!(\"@VERIF@/replay/contention.rs\");\n",
    "rustzx-test/tests/verif_driving.rs": "include!(\"@VERIF@/replay/driving.rs\");\n",
    "rustzx-test/tests/verif_szx.rs": "include!(\"@VERIF@/replay/szx_native.rs\");\n",
}
