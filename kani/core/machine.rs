//! K-core::machine - the ZXSpecs tables and bank table assumed by the Verus unit `ctl`.
use crate::zx::machine::ZXMachine;

fn check_specs(m: ZXMachine, t0: usize, tline: usize, frame: usize, rom_pages: u8) {
    let s = m.specs();
    assert!(s.clocks_first_pixel == t0 + 1);
    assert!(s.clocks_line == tline);
    assert!(s.clocks_screen_row == 128);
    assert!(s.lines_screen == 192);
    assert!(s.clocks_frame == frame);
    assert!(s.interrupt_length == 32);
    assert!(s.contention_pattern == [6, 5, 4, 3, 2, 1, 0, 0]);
    assert!(s.clocks_left_border == 24);
    assert!(s.clocks_ula_read_shift == 2);
    assert!(s.clocks_ula_read_origin == t0 + 3);
    assert!(s.clocks_ula_beam_shift == 1);
    assert!(s.rom_pages == rom_pages);
    kani::cover!(true);
}

#[kani::proof]
fn specs_48k() {
    check_specs(ZXMachine::Sinclair48K, 14335, 224, 69888, 1);
}

#[kani::proof]
fn specs_128k() {
    check_specs(ZXMachine::Sinclair128K, 14361, 228, 70908, 2);
}

#[kani::proof]
#[kani::unwind(6)]
fn bank_is_contended() {
    let page: usize = kani::any();
    assert!(ZXMachine::Sinclair48K.bank_is_contended(page) == (page == 0));
    assert!(
        ZXMachine::Sinclair128K.bank_is_contended(page)
            == (page == 1 || page == 3 || page == 5 || page == 7)
    );
    kani::cover!(true);
}
