//! Minimal host for controller-level harnesses.
use crate::{
    host::{
        BufferCursor, DebugInterface, FrameBuffer, FrameBufferSource, Host, HostContext, IoExtender,
        Stopwatch,
    },
    settings::RustzxSettings,
    utils::EmulationMode,
    zx::{
        machine::ZXMachine,
        sound::ay::ZXAYMode,
        video::colors::{ZXBrightness, ZXColor},
    },
};
use core::time::Duration;

pub struct VFrameBuffer;
impl FrameBuffer for VFrameBuffer {
    type Context = ();
    fn new(_w: usize, _h: usize, _s: FrameBufferSource, _c: ()) -> Self {
        VFrameBuffer
    }
    fn set_color(&mut self, _x: usize, _y: usize, _c: ZXColor, _b: ZXBrightness) {}
}

pub struct VContext;
impl HostContext<VHost> for VContext {
    fn frame_buffer_context(&self) {}
}

pub struct VStopwatch;
impl Stopwatch for VStopwatch {
    fn new() -> Self {
        VStopwatch
    }
    fn measure(&self) -> Duration {
        Duration::from_secs(0)
    }
}

/// Recording extender. One harness performs one port access, so a single symbolic answer to
/// `extends_port` covers every possible claim set for that port.
pub struct VExt {
    pub claims: bool,
    pub answer: u8,
    pub n_read: u8,
    pub n_write: u8,
    pub last_port: u16,
    pub last_data: u8,
}
impl IoExtender for VExt {
    fn write(&mut self, port: u16, data: u8) {
        self.n_write += 1;
        self.last_port = port;
        self.last_data = data;
    }
    fn read(&mut self, port: u16) -> u8 {
        self.n_read += 1;
        self.last_port = port;
        self.answer
    }
    fn extends_port(&self, _port: u16) -> bool {
        self.claims
    }
}

/// debugger stand-in: answers `answer` and records the address it was asked about
pub struct VDebug {
    pub answer: bool,
    pub asked: Option<u16>,
}
impl DebugInterface for VDebug {
    fn check_pc_breakpoint(&mut self, addr: u16) -> bool {
        self.asked = Some(addr);
        self.answer
    }
}

pub struct VHost;
impl Host for VHost {
    type Context = VContext;
    type TapeAsset = BufferCursor<&'static [u8]>;
    type FrameBuffer = VFrameBuffer;
    type EmulationStopwatch = VStopwatch;
    type IoExtender = VExt;
    type DebugInterface = VDebug;
}

pub fn settings(machine: ZXMachine, kempston: bool, mouse: bool, default_rom: bool) -> RustzxSettings {
    RustzxSettings {
        machine,
        emulation_mode: EmulationMode::FrameCount(1),
        tape_fastload_enabled: true,
        kempston_enabled: kempston,
        mouse_enabled: mouse,
        ay_mode: ZXAYMode::Mono,
        ay_enabled: true,
        beeper_enabled: true,
        sound_enabled: true,
        sound_volume: 100,
        sound_sample_rate: 44100,
        load_default_rom: default_rom,
        autoload_enabled: false,
    }
}

pub fn any_machine() -> ZXMachine {
    if kani::any() {
        ZXMachine::Sinclair48K
    } else {
        ZXMachine::Sinclair128K
    }
}

/// `libm::sqrt` lowers to an SSE2 intrinsic Kani does not support. It only feeds the AY pan
/// gains (C18's float part); exact on the values AymBackend::new passes.
pub fn sqrt_stub(x: f64) -> f64 {
    if x == 0.0 {
        0.0
    } else if x == 1.0 {
        1.0
    } else if x == 0.5 {
        0.7071067811865476
    } else {
        let r: f64 = kani::any();
        kani::assume(r >= 0.0);
        r
    }
}

/// no-op stand-ins for the two per-T-state device updates whose cost dominates CBMC runs;
/// both take `&mut` to their own struct only (frame by ownership), C19/C08 own their behaviour.
pub fn mixer_process_stub(_m: &mut crate::zx::sound::mixer::ZXMixer, _t: f64) {}
pub fn screen_process_clocks_stub<FB: FrameBuffer>(
    _s: &mut crate::zx::video::screen::ZXScreen<FB>,
    _clocks: usize,
) {
}
