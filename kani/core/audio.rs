//! K-core::audio - C19: the float expressions of the audio path (bit-precise over f64/usize).
use super::host::*;
use crate::zx::{
    controller::ZXController,
    machine::ZXMachine,
    sound::{beeper::ZXBeeper, mixer::ZXMixer, sample::SampleGenerator},
};
use crate::zx::sound::ay::ZXAYMode;

/// sample index of a frame position, every sample rate 8-384 kHz: never beyond samples_per_frame,
/// frame start -> 0, frame end -> floor(rate/50)
#[kani::proof]
#[kani::stub(libm::sqrt, sqrt_stub)]
fn sample_index_range() {
    let rate: usize = kani::any();
    kani::assume(rate >= 8000 && rate <= 384000);
    let mut m = ZXMixer::new(true, false, ZXAYMode::Mono, 44100);
    m.verif_set_rate(rate);
    let spf = rate / 50;
    let f: f64 = kani::any();
    kani::assume(f >= 0.0 && f <= 1.0);
    let a = m.verif_count(f);
    kani::assert(a <= spf, "C19: a frame position never maps beyond samples_per_frame");
    kani::assert(m.verif_count(1.0) == spf && m.verif_count(0.0) == 0, "C19: frame start -> 0, frame end -> floor(rate/50)");
    kani::cover!(a > 0 && a < spf);
}

/// sample index = floor(spf * position) and monotone in the position, for the common sample rates
/// (BOUNDED in the rate: a symbolic rate times a symbolic position did not finish in 50 minutes)
#[kani::proof]
#[kani::unwind(10)]
#[kani::stub(libm::sqrt, sqrt_stub)]
fn sample_index_floor() {
    let rates: [usize; 8] = [8000, 11025, 22050, 32000, 44100, 48000, 96000, 192000];
    let f: f64 = kani::any();
    let g: f64 = kani::any();
    kani::assume(f >= 0.0 && f < 1.0 && g >= 0.0 && g <= 1.0 && f <= g);
    let mut m = ZXMixer::new(true, false, ZXAYMode::Mono, 44100);
    let mut i = 0;
    while i < 8 {
        m.verif_set_rate(rates[i]);
        let spf = rates[i] / 50;
        let a = m.verif_count(f);
        let b = m.verif_count(g);
        kani::assert(a <= b, "C19: sample index is monotone in frame position");
        // sample k is due exactly when the position passes k/spf (to within one sample)
        let exact = (spf as f64) * f;
        kani::assert((a as f64) <= exact && exact < (a as f64) + 1.0, "C19: index = floor(spf * position)");
        i += 1;
    }
    kani::cover!(f > 0.5);
}

/// frame position: within [0,1], monotone in the frame clock
#[kani::proof]
#[kani::unwind(17)]
#[kani::stub(libm::sqrt, sqrt_stub)]
fn frame_position() {
    let machine = any_machine();
    let mut c = ZXController::<VHost>::new(&settings(machine, false, false, false), VContext);
    let f = machine.specs().clocks_frame;
    let t1: usize = kani::any();
    let t2: usize = kani::any();
    kani::assume(t1 <= t2 && t2 <= f + 64);
    c.frame_clocks = t1;
    let p1 = c.verif_frame_pos();
    c.frame_clocks = t2;
    let p2 = c.verif_frame_pos();
    kani::assert(p1 >= 0.0 && p1 <= 1.0 && p2 >= 0.0 && p2 <= 1.0, "C19: frame position within [0,1]");
    kani::assert(p1 <= p2, "C19: frame position monotone in emulated time");
    kani::assert(t1 < f || p1 == 1.0, "C19: end of frame maps to 1.0");
}

/// beeper sample = speaker/MIC level set by the last ULA write; finite, within [0, 0.6]
#[kani::proof]
fn beeper_levels() {
    let mut b = ZXBeeper::default();
    let (ear, mic): (bool, bool) = (kani::any(), kani::any());
    b.change_state(ear, mic);
    let s = b.gen_sample();
    let exp = (if ear { 0.5 } else { 0.0 }) + (if mic { 0.1 } else { 0.0 });
    kani::assert(s.left == exp && s.right == exp, "C19: beeper level follows the speaker (0.5) and MIC (0.1) bits");
    kani::assert(s.left.is_finite() && s.left >= 0.0 && s.left <= 0.6, "C19: beeper sample finite and bounded");
}

/// what the (stubbed) AY chip contributes to one sample
static mut AY_SAMPLE: (f64, f64) = (0.0, 0.0);
fn ay_gen_sample_stub(_ay: &mut crate::zx::sound::ay::ZXAyChip) -> crate::zx::sound::sample::SoundSample<f64> {
    let (l, r) = unsafe { AY_SAMPLE };
    crate::zx::sound::sample::SoundSample::new(l, r)
}

/// C19: one output sample = (beeper level when the beeper is enabled + AY sample when the AY is
/// enabled) x master volume, per channel, narrowed to f32; finite and within the bound the volume
/// implies; it is also remembered as the padding sample. The AY chip's own sample is a stub here
/// (its value is C18's subject). BOUNDED in the float dimension: 4 volumes x 4 x 4 AY levels.
#[kani::proof]
#[kani::stub(libm::sqrt, sqrt_stub)]
#[kani::stub(crate::zx::sound::ay::ZXAyChip::gen_sample, ay_gen_sample_stub)]
fn mixer_sample_composition() {
    let mut m = ZXMixer::new(true, true, ZXAYMode::Mono, 44100);
    let (use_beeper, use_ay): (bool, bool) = (kani::any(), kani::any());
    m.verif_set_sources(use_beeper, use_ay);
    let (ear, mic): (bool, bool) = (kani::any(), kani::any());
    m.beeper.change_state(ear, mic);
    // symbolic float products did not finish in CBMC within 20 minutes: the volume and the AY pair
    // are drawn from small sets of exactly representable values (which value is symbolic)
    let vols: [f64; 4] = [0.0, 0.25, 0.5, 1.0];
    let vi: usize = kani::any();
    kani::assume(vi < 4);
    let vol = vols[vi];
    m.volume(vol);
    let ays: [f64; 4] = [0.0, 0.125, 1.5, 3.0];
    let (ai, aj): (usize, usize) = (kani::any(), kani::any());
    kani::assume(ai < 4 && aj < 4);
    let (al, ar) = (ays[ai], ays[aj]);
    unsafe { AY_SAMPLE = (al, ar) };
    let s = m.verif_gen_sample();
    let beeper = if use_beeper { (if ear { 0.5 } else { 0.0 }) + (if mic { 0.1 } else { 0.0 }) } else { 0.0 };
    let exp_l = ((beeper + if use_ay { al } else { 0.0 }) * vol) as f32;
    let exp_r = ((beeper + if use_ay { ar } else { 0.0 }) * vol) as f32;
    kani::assert(s.left == exp_l && s.right == exp_r, "C19: sample = (beeper + AY) x master volume per channel");
    kani::assert(s.left.is_finite() && s.right.is_finite() && s.left >= 0.0 && s.left <= 3.6 && s.right <= 3.6,
        "C19: sample finite and within the bound implied by the volume setting");
    let last = m.verif_last_sample();
    kani::assert(last.left == s.left && last.right == s.right, "C19: the frame-end padding repeats the last generated sample");
    kani::cover!(s.left > 0.0);
}
