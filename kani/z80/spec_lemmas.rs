//! Lemmas about the reference semantics alone (no real code involved): the rules of property C02
//! as stated hold of `ref_step`, so that step equivalence with the reference carries them over to
//! the real CPU.  They guard the trusted specification against transcription slips.
use super::iface::*;
use super::reference::ref_step;

struct SpecBus {
    answers: [u8; 8],
    na: usize,
    int: bool,
    nmi: bool,
    writes: [(u16, u8); 4],
    nw: usize,
    t: u32,
    halt_released: bool,
}
impl SpecBus {
    fn new(int: bool, nmi: bool) -> Self {
        SpecBus { answers: kani::any(), na: 0, int, nmi, writes: [(0, 0); 4], nw: 0, t: 0, halt_released: false }
    }
    fn ans(&mut self) -> u8 {
        let v = if self.na < 8 { self.answers[self.na] } else { 0 };
        self.na += 1;
        v
    }
}
impl RefBus for SpecBus {
    fn m1(&mut self, _a: u16) -> u8 { self.t += 4; self.ans() }
    fn mem_read(&mut self, _a: u16) -> u8 { self.t += 3; self.ans() }
    fn mem_write(&mut self, a: u16, v: u8) {
        self.t += 3;
        if self.nw < 4 { self.writes[self.nw] = (a, v); }
        self.nw += 1;
    }
    fn internal(&mut self, _a: u16, n: u8) { self.t += n as u32; }
    fn idle(&mut self, n: u8) { self.t += n as u32; }
    fn port_in(&mut self, _p: u16) -> u8 { self.t += 4; self.ans() }
    fn port_out(&mut self, _p: u16, _v: u8) { self.t += 4; }
    fn int_ack(&mut self) -> u8 { self.ans() }
    fn int_line(&mut self) -> bool { self.int }
    fn nmi_line(&mut self) -> bool { self.nmi }
    fn halt_line(&mut self, level: bool) { if !level { self.halt_released = true; } }
    fn reti(&mut self) {}
    fn step_end(&mut self, _pc: u16) {}
}

fn any_state() -> RefState {
    let s = RefState {
        a: kani::any(), f: kani::any(), b: kani::any(), c: kani::any(), d: kani::any(), e: kani::any(),
        h: kani::any(), l: kani::any(), a_alt: kani::any(), f_alt: kani::any(), b_alt: kani::any(),
        c_alt: kani::any(), d_alt: kani::any(), e_alt: kani::any(), h_alt: kani::any(), l_alt: kani::any(),
        ixh: kani::any(), ixl: kani::any(), iyh: kani::any(), iyl: kani::any(), i: kani::any(), r: kani::any(),
        pc: kani::any(), sp: kani::any(), memptr: kani::any(), q: kani::any(),
        iff1: kani::any(), iff2: kani::any(), im: kani::any(), halted: kani::any(),
        pending_prefix: 0, int_inhibit: kani::any(),
    };
    kani::assume(s.im <= 2);
    s
}

/// acceptance happens only with IFF1 set, never in the EI/DI/prefix shadow; it clears IFF1 and IFF2,
/// releases HALT, pushes the address of the next instruction and continues at 0x0038 (IM 0/1) in 13 T
#[kani::proof]
#[kani::unwind(9)]
fn spec_int_im01() {
    let mut s = any_state();
    kani::assume(s.im != 2);
    let s0 = s;
    let mut bus = SpecBus::new(true, false);
    bus.answers[0] = 0x00; // handler starts with NOP (or, if not accepted, the next instruction is NOP)
    kani::assume(!s.halted || s.int_inhibit == false); // a halted CPU is never inside the shadow
    ref_step(&mut s, &mut bus);
    let accepted = !s0.int_inhibit && s0.iff1;
    if accepted {
        let ret = if s0.halted { s0.pc.wrapping_add(1) } else { s0.pc };
        kani::assert(!s.iff1 && !s.iff2, "C02.spec INT acceptance clears IFF1 and IFF2");
        kani::assert(!s.halted && (!s0.halted || bus.halt_released), "C02.spec acceptance releases HALT");
        kani::assert(bus.nw == 2 && bus.writes[0] == (s0.sp.wrapping_sub(1), (ret >> 8) as u8)
            && bus.writes[1] == (s0.sp.wrapping_sub(2), ret as u8), "C02.spec pushes the address of the next instruction");
        kani::assert(s.pc == 0x0039 && s.sp == s0.sp.wrapping_sub(2), "C02.spec continues at 0x0038 (then the handler's NOP)");
        kani::assert(bus.t == 13 + 4, "C03.spec IM 0/1 entry takes 13 T");
    } else if !s0.halted {
        kani::assert(bus.nw == 0 && s.pc == s0.pc.wrapping_add(1) && s.iff1 == s0.iff1 && s.iff2 == s0.iff2,
            "C02.spec no acceptance with IFF1 clear or inside the EI/DI/prefix shadow");
        kani::assert(!s.int_inhibit, "C02.spec the shadow lasts exactly one instruction");
    }
}

/// IM 2: the handler address is the word at I*256 + bus byte, 19 T
#[kani::proof]
#[kani::unwind(9)]
fn spec_int_im2() {
    let mut s = any_state();
    s.im = 2;
    s.iff1 = true;
    s.int_inhibit = false;
    let s0 = s;
    let mut bus = SpecBus::new(true, false);
    bus.answers[3] = 0x00;
    ref_step(&mut s, &mut bus);
    let target = (bus.answers[1] as u16) | ((bus.answers[2] as u16) << 8);
    kani::assert(s.pc == target.wrapping_add(1), "C02.spec IM 2 continues at the word read from the vector table");
    kani::assert(!s.iff1 && !s.iff2 && !s.halted, "C02.spec IM 2 acceptance clears IFF1/IFF2, releases HALT");
    kani::assert(bus.t == 19 + 4, "C03.spec IM 2 entry takes 19 T");
    let _ = s0;
}

/// NMI: clears IFF1 only, preserves IFF2, continues at 0x0066, 11 T, wins over INT
#[kani::proof]
#[kani::unwind(9)]
fn spec_nmi() {
    let mut s = any_state();
    s.int_inhibit = false;
    let s0 = s;
    let mut bus = SpecBus::new(kani::any(), true);
    bus.answers[0] = 0x00;
    ref_step(&mut s, &mut bus);
    let ret = if s0.halted { s0.pc.wrapping_add(1) } else { s0.pc };
    kani::assert(!s.iff1 && s.iff2 == s0.iff2, "C02.spec NMI clears IFF1 only and preserves IFF2");
    kani::assert(s.pc == 0x0067 && !s.halted, "C02.spec NMI continues at 0x0066 and releases HALT");
    kani::assert(bus.nw == 2 && bus.writes[0].1 == (ret >> 8) as u8 && bus.writes[1].1 == ret as u8,
        "C02.spec NMI pushes the address of the next instruction");
    kani::assert(bus.t == 11 + 4, "C03.spec NMI entry takes 11 T");
}

/// EI / DI open the one-instruction shadow; a DD/FD followed by another prefix opens it too and
/// leaves the second prefix pending; RETN and RETI copy IFF2 to IFF1; HALT keeps PC and only moves R
#[kani::proof]
#[kani::unwind(9)]
fn spec_shadow_prefix_retn_halt() {
    let mut s = any_state();
    s.halted = false;
    let s0 = s;
    let mut bus = SpecBus::new(false, false);
    let which: u8 = kani::any();
    kani::assume(which < 5);
    match which {
        0 => { bus.answers[0] = 0xFB; }
        1 => { bus.answers[0] = 0xF3; }
        2 => { bus.answers[0] = 0xDD; bus.answers[1] = 0xFD; }
        3 => { bus.answers[0] = 0xED; kani::assume(bus.answers[1] & 0xC7 == 0x45); }
        _ => { bus.answers[0] = 0x76; }
    }
    ref_step(&mut s, &mut bus);
    match which {
        0 => kani::assert(s.iff1 && s.iff2 && s.int_inhibit, "C02.spec EI sets IFF1/IFF2 and opens the shadow"),
        1 => kani::assert(!s.iff1 && !s.iff2 && s.int_inhibit, "C02.spec DI clears IFF1/IFF2 and opens the shadow"),
        2 => kani::assert(s.pending_prefix == 0xFD && s.int_inhibit && s.pc == s0.pc.wrapping_add(2),
            "C02.spec no interrupt can be accepted between a prefix chain and its opcode"),
        3 => kani::assert(s.iff1 == s0.iff2 && s.iff2 == s0.iff2, "C02.spec RETN and RETI copy IFF2 to IFF1"),
        _ => {
            kani::assert(s.halted && s.pc == s0.pc && s.sp == s0.sp && s.a == s0.a && s.f == s0.f,
                "C02.spec HALT keeps PC at the HALT opcode and changes no register");
            kani::assert(s.r & 0x7F == s0.r.wrapping_add(1) & 0x7F && bus.t == 4, "C02.spec a HALT step advances only R and 4 T");
        }
    }
}
