//! K-z80: step equivalence of the real `Z80::emulate` against the reference semantics, for every
//! CPU state and every bus answer, one harness per opcode group (group restriction on the
//! answer stream precedes the call so CBMC prunes the decode).
use super::bus::*;
use super::iface::*;
use super::step::*;
use crate::VRegs;

fn any_start(prefix: u8, halted: bool, int: bool, nmi: bool) -> Start {
    let s = Start {
        regs: kani::any(),
        halted,
        skip_interrupt: kani::any(),
        im: kani::any(),
        prefix,
        answers: kani::any(),
        int,
        nmi,
    };
    kani::assume(valid(&s));
    s
}

/// would this step accept an interrupt (statement of C02)
fn accepts(s: &Start) -> bool {
    !s.skip_interrupt && (s.nmi || (s.int && s.regs.iff1))
}

/// C01 + C03 obligations of one step. In the interrupt-acceptance harnesses (`check_int`) the state and
/// transfer comparisons ARE the statement of C02 (IFF1/IFF2 effects, pushed return address, vector,
/// HALT release), so there they carry both tags and `check C02` counts them.
/// `kani::assert` is assert-then-assume: after a failing assertion the path is cut, so of several violated
/// obligations only the FIRST in program order would ever be reported - and a check that counts only its own
/// property's tags would miss a violation hidden behind another property's. `vassert!` guards each
/// obligation with its own nondeterministic bit: every obligation is reported independently of the others.
macro_rules! vassert {
    ($c:expr, $m:expr) => {
        let vassert_cond: bool = $c;
        if kani::any::<bool>() {
            kani::assert(vassert_cond, $m);
        }
    };
}
macro_rules! def_check {
    ($name:ident, $tag:expr) => {
fn $name(s: &Start) {
    let o = run_both(s);
    kani::assert(!o.overflow, "harness: event log large enough");
    let ignore_q = o.q_waived;
    let (a, b) = (&o.real, &o.spec);
    vassert!(a.a == b.a && a.b == b.b && a.c == b.c && a.d == b.d && a.e == b.e && a.h == b.h && a.l == b.l,
        concat!($tag, ".state main registers A,B,C,D,E,H,L"));
    vassert!(a.f == b.f, concat!($tag, ".state flags F (all eight bits)"));
    vassert!(a.a_alt == b.a_alt && a.f_alt == b.f_alt && a.b_alt == b.b_alt && a.c_alt == b.c_alt
        && a.d_alt == b.d_alt && a.e_alt == b.e_alt && a.h_alt == b.h_alt && a.l_alt == b.l_alt,
        concat!($tag, ".state alternate registers"));
    vassert!(a.ixh == b.ixh && a.ixl == b.ixl && a.iyh == b.iyh && a.iyl == b.iyl, concat!($tag, ".state IX IY"));
    vassert!(a.pc == b.pc, concat!($tag, ".state PC"));
    vassert!(a.sp == b.sp, concat!($tag, ".state SP"));
    vassert!(a.i == b.i && a.r == b.r, concat!($tag, ".state I R"));
    vassert!(a.iff1 == b.iff1 && a.iff2 == b.iff2, concat!($tag, ".state IFF1 IFF2"));
    vassert!(a.im == b.im, concat!($tag, ".state interrupt mode"));
    vassert!(a.halted == b.halted, concat!("C02", ".state halted"));
    vassert!(a.pending_prefix == b.pending_prefix && a.int_inhibit == b.int_inhibit,
        concat!("C02", ".state pending prefix / interrupt shadow"));
    // C05's "interrupted exactly once per frame" needs INT to be sampled after every instruction the Z80
    // samples it after: a shadow left set where the Z80 clears it lets a run of such instructions hide
    // the 32-T pulse (one direction only: a shadow cleared too early does not lose the frame interrupt)
    vassert!(!(a.int_inhibit && !b.int_inhibit),
        "C02/C05.state no instruction leaves the interrupt shadow set where the Z80 clears it");
    vassert!(a.memptr == b.memptr, concat!($tag, ".state MEMPTR"));
    vassert!(ignore_q || a.q == b.q, concat!($tag, ".state Q"));
    vassert!(o.ok_data, concat!($tag, ".trace memory/port transfers (order, address, data)"));
    vassert!(o.t_real == o.t_spec, "C03.time total T-states");
    // (which address each cycle and each single internal T-state carries is also what C04's delays hang on)
    vassert!(o.ok_full, "C03/C04.trace bus cycles (kind, address, clocks)");
    kani::cover!(true);
}
    };
}
def_check!(check, "C01");
def_check!(check_int, "C01/C02");

fn is_prefix(b: u8) -> bool {
    b == 0xCB || b == 0xDD || b == 0xED || b == 0xFD
}

/// instruction groups: INT and NMI low (acceptance = int_* groups; lines high but not accepted =
/// `int_not_accepted`; concrete line levels keep the interrupt paths out of symbolic execution)
macro_rules! group {
    ($name:ident, prefix = $p:expr, halted = $h:expr, bytes = [$($b:expr),*], |$a:ident| $cond:expr) => {
        group!($name, check, prefix = $p, halted = $h, bytes = [$($b),*], |$a| $cond);
    };
    ($name:ident, $chk:ident, prefix = $p:expr, halted = $h:expr, bytes = [$($b:expr),*], |$a:ident| $cond:expr) => {
        #[kani::proof]
        #[kani::unwind(9)]
        fn $name() {
            let mut s = any_start($p, $h, false, false);
            let fixed: &[u8] = &[$($b),*];
            let mut k = 0;
            while k < fixed.len() {
                s.answers[k] = fixed[k];
                k += 1;
            }
            let $a = &s.answers;
            kani::assume($cond);
            $chk(&s);
        }
    };
}

// One harness per prefix class.  The prefix bytes are concrete so symbolic execution prunes the
// prefix decode; the opcode byte, every operand, bus answer and register is symbolic.
group!(plain_all, prefix = 0, halted = false, bytes = [], |a| !is_prefix(a[0]) && a[0] != 0x76);
group!(cbx_all, prefix = 0, halted = false, bytes = [0xCB], |a| true);
group!(ed_all, prefix = 0, halted = false, bytes = [0xED], |a| true);
group!(dd_all, prefix = 0, halted = false, bytes = [0xDD], |a| a[1] != 0xCB);
group!(fd_all, prefix = 0, halted = false, bytes = [0xFD], |a| a[1] != 0xCB);
group!(ddcb_idx, prefix = 0, halted = false, bytes = [0xDD, 0xCB], |a| true);
group!(fdcb_idx, prefix = 0, halted = false, bytes = [0xFD, 0xCB], |a| true);
// second element of a prefix chain already fetched by the previous step
group!(pend_dd, prefix = 0xDD, halted = false, bytes = [], |a| true);
group!(pend_fd, prefix = 0xFD, halted = false, bytes = [], |a| true);
group!(pend_ed, prefix = 0xED, halted = false, bytes = [], |a| true);
// HALT: entering, and staying halted (a halted CPU re-fetches the HALT opcode)
// (their state comparisons are C02's statement: same PC, only R and time advance)
group!(halt_enter, check_int, prefix = 0, halted = false, bytes = [0x76], |a| true);
group!(halt_stay, check_int, prefix = 0, halted = true, bytes = [0x76], |a| true);
// the instructions C02 names: EI / DI (IFF1, IFF2 and the one-instruction shadow), RETN / RETI (IFF1 := IFF2);
// concrete opcodes, every register / flip-flop / bus answer symbolic (the mirrors ED 55/5D/65/6D/75/7D are in ed_all)
group!(c02_ei, check_int, prefix = 0, halted = false, bytes = [0xFB], |a| true);
group!(c02_di, check_int, prefix = 0, halted = false, bytes = [0xF3], |a| true);
group!(c02_retn, check_int, prefix = 0, halted = false, bytes = [0xED, 0x45], |a| true);
group!(c02_reti, check_int, prefix = 0, halted = false, bytes = [0xED, 0x4D], |a| true);

/// interrupt groups (C02): every register value, halted or not; the control inputs that decide
/// acceptance (skip flag, line levels, IFF1, IM=2 or not) are concrete per harness so symbolic
/// execution follows one acceptance path; the first handler instruction is a concrete NOP
/// (the instruction space is covered by the groups above)
fn int_case(skip: bool, int: bool, nmi: bool, iff1: bool, im: Option<u8>, nop_at: usize) {
    let halted: bool = kani::any();
    let mut s = any_start(0, halted, int, nmi);
    s.skip_interrupt = skip;
    s.regs.iff1 = iff1;
    if let Some(m) = im {
        s.im = m;
    }
    s.answers[nop_at] = 0x00;
    // a halted CPU that is not released re-fetches its HALT opcode
    let accepted = !skip && (nmi || (int && iff1));
    if !accepted {
        kani::assume(!halted);
    }
    check_int(&s);
}

macro_rules! int_group {
    ($name:ident, $skip:expr, $int:expr, $nmi:expr, $iff1:expr, $im2:expr, $k:expr) => {
        #[kani::proof]
        #[kani::unwind(9)]
        fn $name() {
            int_case($skip, $int, $nmi, $iff1, $im2, $k);
        }
    };
}
// accepted (the interrupt mode is concrete where the entry path depends on it)
int_group!(int_nmi_intlow, false, false, true, true, None, 0);
int_group!(int_nmi_inthigh, false, true, true, false, None, 0);
int_group!(int_im0, false, true, false, true, Some(0), 0);
int_group!(int_im1, false, true, false, true, Some(1), 0);
int_group!(int_im2, false, true, false, true, Some(2), 3);
// not accepted: IFF1 clear; EI/DI/prefix shadow with both lines high
int_group!(int_masked, false, true, false, false, None, 0);
int_group!(int_shadow, true, true, true, true, None, 0);
