//! Reference semantics of the NMOS Zilog Z80, written from the architecture documentation
//! (Zilog user manual, S. Young "The Undocumented Z80 Documented", MEMPTR research,
//! P. Rak's Q-latch research, ZX Spectrum Next team "Z80 Block Instruction Flags").
//!
//! This is the *trusted specification* the real `rustzx-z80` code is compared against.
//! Style rules (it is model-checked by Kani/CBMC): `core` only, no tables, no loops,
//! no recursion, no panics, no computed indexing.  Flags are computed arithmetically:
//! parity by xor-folding, half-carry by nibble arithmetic, overflow by sign logic.
//!
//! One `ref_step` == one call of `Z80::emulate`: optional interrupt entry followed by one
//! instruction (or by one element of a DD/FD prefix chain).

use super::iface::*;

// ------------------------------------------------------------------------------------------
// flag bits
// ------------------------------------------------------------------------------------------
const CF: u8 = 0x01;
const NF: u8 = 0x02;
const PF: u8 = 0x04;
const XF: u8 = 0x08;
const HF: u8 = 0x10;
const YF: u8 = 0x20;
const ZF: u8 = 0x40;
const SF: u8 = 0x80;

/// Which register plays the role of HL for the current instruction.
#[derive(Clone, Copy, PartialEq, Eq)]
enum Idx {
    Hl,
    Ix,
    Iy,
}

// ------------------------------------------------------------------------------------------
// small helpers
// ------------------------------------------------------------------------------------------
#[inline]
fn mk16(hi: u8, lo: u8) -> u16 {
    ((hi as u16) << 8) | (lo as u16)
}
#[inline]
fn hi8(v: u16) -> u8 {
    (v >> 8) as u8
}
#[inline]
fn lo8(v: u16) -> u8 {
    (v & 0xFF) as u8
}
#[inline]
fn flag(cond: bool, bit: u8) -> u8 {
    if cond {
        bit
    } else {
        0
    }
}
/// PF set when `v` has an even number of one bits.
#[inline]
fn parity(v: u8) -> u8 {
    let a = v ^ (v >> 4);
    let b = a ^ (a >> 2);
    let c = b ^ (b >> 1);
    flag(c & 1 == 0, PF)
}
/// S, Z and the undocumented bit 5/3 copies of `v`.
#[inline]
fn sz53(v: u8) -> u8 {
    (v & (SF | YF | XF)) | flag(v == 0, ZF)
}
#[inline]
fn sz53p(v: u8) -> u8 {
    sz53(v) | parity(v)
}
/// add signed 8-bit displacement
#[inline]
fn add_disp(base: u16, d: u8) -> u16 {
    let ext: u16 = if d & 0x80 != 0 { 0xFF00 | d as u16 } else { d as u16 };
    base.wrapping_add(ext)
}
/// address presented during the extra T-states of a stretched M1 cycle (refresh address)
#[inline]
fn ir(s: &RefState) -> u16 {
    mk16(s.i, s.r)
}
/// 7-bit refresh counter increment, bit 7 is kept
#[inline]
fn inc_r(s: &mut RefState) {
    s.r = (s.r & 0x80) | (s.r.wrapping_add(1) & 0x7F);
}

// ---- 16-bit register views ----------------------------------------------------------------
#[inline]
fn bc(s: &RefState) -> u16 {
    mk16(s.b, s.c)
}
#[inline]
fn de(s: &RefState) -> u16 {
    mk16(s.d, s.e)
}
#[inline]
fn set_bc(s: &mut RefState, v: u16) {
    s.b = hi8(v);
    s.c = lo8(v);
}
#[inline]
fn set_de(s: &mut RefState, v: u16) {
    s.d = hi8(v);
    s.e = lo8(v);
}
/// HL, or IX/IY under a DD/FD prefix
#[inline]
fn hlx(s: &RefState, idx: Idx) -> u16 {
    match idx {
        Idx::Hl => mk16(s.h, s.l),
        Idx::Ix => mk16(s.ixh, s.ixl),
        Idx::Iy => mk16(s.iyh, s.iyl),
    }
}
#[inline]
fn set_hlx(s: &mut RefState, idx: Idx, v: u16) {
    match idx {
        Idx::Hl => {
            s.h = hi8(v);
            s.l = lo8(v);
        }
        Idx::Ix => {
            s.ixh = hi8(v);
            s.ixl = lo8(v);
        }
        Idx::Iy => {
            s.iyh = hi8(v);
            s.iyl = lo8(v);
        }
    }
}
/// register pair by 2-bit code: BC, DE, HL(IX/IY), SP
fn rp(s: &RefState, p: u8, idx: Idx) -> u16 {
    match p & 3 {
        0 => bc(s),
        1 => de(s),
        2 => hlx(s, idx),
        _ => s.sp,
    }
}
fn set_rp(s: &mut RefState, p: u8, idx: Idx, v: u16) {
    match p & 3 {
        0 => set_bc(s, v),
        1 => set_de(s, v),
        2 => set_hlx(s, idx, v),
        _ => s.sp = v,
    }
}
/// 8-bit register by 3-bit code B,C,D,E,H,L,-,A.  Code 6 ("(HL)") is never passed here.
/// Under DD/FD, H and L mean the halves of IX/IY.
fn r8(s: &RefState, code: u8, idx: Idx) -> u8 {
    match code & 7 {
        0 => s.b,
        1 => s.c,
        2 => s.d,
        3 => s.e,
        4 => match idx {
            Idx::Hl => s.h,
            Idx::Ix => s.ixh,
            Idx::Iy => s.iyh,
        },
        5 => match idx {
            Idx::Hl => s.l,
            Idx::Ix => s.ixl,
            Idx::Iy => s.iyl,
        },
        6 => 0,
        _ => s.a,
    }
}
fn set_r8(s: &mut RefState, code: u8, idx: Idx, v: u8) {
    match code & 7 {
        0 => s.b = v,
        1 => s.c = v,
        2 => s.d = v,
        3 => s.e = v,
        4 => match idx {
            Idx::Hl => s.h = v,
            Idx::Ix => s.ixh = v,
            Idx::Iy => s.iyh = v,
        },
        5 => match idx {
            Idx::Hl => s.l = v,
            Idx::Ix => s.ixl = v,
            Idx::Iy => s.iyl = v,
        },
        6 => {}
        _ => s.a = v,
    }
}
/// condition codes NZ,Z,NC,C,PO,PE,P,M
fn cond(s: &RefState, cc: u8) -> bool {
    match cc & 7 {
        0 => s.f & ZF == 0,
        1 => s.f & ZF != 0,
        2 => s.f & CF == 0,
        3 => s.f & CF != 0,
        4 => s.f & PF == 0,
        5 => s.f & PF != 0,
        6 => s.f & SF == 0,
        _ => s.f & SF != 0,
    }
}
/// every instruction that drives F through the flag logic also latches it into Q
#[inline]
fn set_f(s: &mut RefState, f: u8) {
    s.f = f;
    s.q = f;
}

// ------------------------------------------------------------------------------------------
// bus helpers
// ------------------------------------------------------------------------------------------
/// opcode fetch: M1 cycle at PC, PC+1, R+1
fn fetch_m1<B: RefBus>(s: &mut RefState, bus: &mut B) -> u8 {
    let b = bus.m1(s.pc);
    s.pc = s.pc.wrapping_add(1);
    inc_r(s);
    b
}
/// operand byte at PC (3 T), PC+1
fn imm8<B: RefBus>(s: &mut RefState, bus: &mut B) -> u8 {
    let b = bus.mem_read(s.pc);
    s.pc = s.pc.wrapping_add(1);
    b
}
/// operand word at PC, low byte first
fn imm16<B: RefBus>(s: &mut RefState, bus: &mut B) -> u16 {
    let lo = imm8(s, bus);
    let hi = imm8(s, bus);
    mk16(hi, lo)
}
fn read16<B: RefBus>(bus: &mut B, addr: u16) -> u16 {
    let lo = bus.mem_read(addr);
    let hi = bus.mem_read(addr.wrapping_add(1));
    mk16(hi, lo)
}
fn write16<B: RefBus>(bus: &mut B, addr: u16, v: u16) {
    bus.mem_write(addr, lo8(v));
    bus.mem_write(addr.wrapping_add(1), hi8(v));
}
/// two stack write cycles: high byte at SP-1, then low byte at SP-2
fn push16<B: RefBus>(s: &mut RefState, bus: &mut B, v: u16) {
    s.sp = s.sp.wrapping_sub(1);
    bus.mem_write(s.sp, hi8(v));
    s.sp = s.sp.wrapping_sub(1);
    bus.mem_write(s.sp, lo8(v));
}
/// two stack read cycles: low byte at SP, high byte at SP+1
fn pop16<B: RefBus>(s: &mut RefState, bus: &mut B) -> u16 {
    let lo = bus.mem_read(s.sp);
    s.sp = s.sp.wrapping_add(1);
    let hi = bus.mem_read(s.sp);
    s.sp = s.sp.wrapping_add(1);
    mk16(hi, lo)
}
/// Address of the memory operand written "(HL)" in the opcode table.
/// Plain: HL.  Indexed: read displacement at PC (3 T), 5 internal T-states with the address of
/// the displacement byte on the bus, MEMPTR := IX+d.
fn mem_operand_addr<B: RefBus>(s: &mut RefState, bus: &mut B, idx: Idx) -> u16 {
    match idx {
        Idx::Hl => mk16(s.h, s.l),
        _ => {
            let d = bus.mem_read(s.pc);
            bus.internal(s.pc, 5);
            s.pc = s.pc.wrapping_add(1);
            let addr = add_disp(hlx(s, idx), d);
            s.memptr = addr;
            addr
        }
    }
}

// ------------------------------------------------------------------------------------------
// 8-bit ALU
// ------------------------------------------------------------------------------------------
/// A := A + v + cin
fn alu_add(s: &mut RefState, v: u8, cin: u8) {
    let a = s.a;
    let wide = a as u16 + v as u16 + cin as u16;
    let r = lo8(wide);
    let half = (a & 0x0F) + (v & 0x0F) + cin > 0x0F;
    // overflow: operands have the same sign and the result has the other one
    let ovf = (a ^ r) & (v ^ r) & 0x80 != 0;
    s.a = r;
    set_f(s, sz53(r) | flag(half, HF) | flag(ovf, PF) | flag(wide > 0xFF, CF));
}
/// A - v - cin; result stored unless `compare` (CP takes bits 5/3 from the operand)
fn alu_sub(s: &mut RefState, v: u8, cin: u8, compare: bool) {
    let a = s.a;
    let r = a.wrapping_sub(v).wrapping_sub(cin);
    let half = (a & 0x0F) < (v & 0x0F) + cin;
    let borrow = (a as u16) < v as u16 + cin as u16;
    // overflow: operands have different signs and the result sign differs from A
    let ovf = (a ^ v) & (a ^ r) & 0x80 != 0;
    let base = flag(r & 0x80 != 0, SF)
        | flag(r == 0, ZF)
        | flag(half, HF)
        | flag(ovf, PF)
        | NF
        | flag(borrow, CF);
    if compare {
        set_f(s, base | (v & (YF | XF)));
    } else {
        s.a = r;
        set_f(s, base | (r & (YF | XF)));
    }
}
/// ADD, ADC, SUB, SBC, AND, XOR, OR, CP selected by 3-bit code
fn alu8(s: &mut RefState, op: u8, v: u8) {
    let c = s.f & CF;
    match op & 7 {
        0 => alu_add(s, v, 0),
        1 => alu_add(s, v, c),
        2 => alu_sub(s, v, 0, false),
        3 => alu_sub(s, v, c, false),
        4 => {
            s.a &= v;
            let f = sz53p(s.a) | HF;
            set_f(s, f);
        }
        5 => {
            s.a ^= v;
            let f = sz53p(s.a);
            set_f(s, f);
        }
        6 => {
            s.a |= v;
            let f = sz53p(s.a);
            set_f(s, f);
        }
        _ => alu_sub(s, v, 0, true),
    }
}
fn inc8(s: &mut RefState, v: u8) -> u8 {
    let r = v.wrapping_add(1);
    let f = (s.f & CF) | sz53(r) | flag(v & 0x0F == 0x0F, HF) | flag(v == 0x7F, PF);
    set_f(s, f);
    r
}
fn dec8(s: &mut RefState, v: u8) -> u8 {
    let r = v.wrapping_sub(1);
    let f = (s.f & CF) | sz53(r) | flag(v & 0x0F == 0x00, HF) | flag(v == 0x80, PF) | NF;
    set_f(s, f);
    r
}
/// CB-group rotate/shift: RLC RRC RL RR SLA SRA SLL SRL
fn rot8(s: &mut RefState, kind: u8, v: u8) -> u8 {
    let cin = s.f & CF;
    let (r, cout) = match kind & 7 {
        0 => ((v << 1) | (v >> 7), v >> 7),
        1 => ((v >> 1) | (v << 7), v & 1),
        2 => ((v << 1) | cin, v >> 7),
        3 => ((v >> 1) | (cin << 7), v & 1),
        4 => (v << 1, v >> 7),
        5 => ((v >> 1) | (v & 0x80), v & 1),
        6 => ((v << 1) | 1, v >> 7),
        _ => (v >> 1, v & 1),
    };
    set_f(s, sz53p(r) | cout);
    r
}
/// RLCA RRCA RLA RRA: only H,N,C and bits 5/3 change
fn rot_a(s: &mut RefState, kind: u8) {
    let a = s.a;
    let cin = s.f & CF;
    let (r, cout) = match kind & 3 {
        0 => ((a << 1) | (a >> 7), a >> 7),
        1 => ((a >> 1) | (a << 7), a & 1),
        2 => ((a << 1) | cin, a >> 7),
        _ => ((a >> 1) | (cin << 7), a & 1),
    };
    s.a = r;
    let f = (s.f & (SF | ZF | PF)) | (r & (YF | XF)) | cout;
    set_f(s, f);
}
fn daa(s: &mut RefState) {
    let a = s.a;
    let c_in = s.f & CF != 0;
    let h_in = s.f & HF != 0;
    let sub = s.f & NF != 0;
    let low = a & 0x0F;
    let fix_low = h_in || low > 9;
    let fix_high = c_in || a > 0x99;
    let adj: u8 = (if fix_low { 0x06 } else { 0 }) | (if fix_high { 0x60 } else { 0 });
    let r = if sub { a.wrapping_sub(adj) } else { a.wrapping_add(adj) };
    let half = if sub { h_in && low < 6 } else { low > 9 };
    s.a = r;
    set_f(s, sz53p(r) | flag(sub, NF) | flag(half, HF) | flag(fix_high, CF));
}
/// BIT n: Z/PV from the tested bit, S only for bit 7, bits 5/3 from `yx_src`
fn bit_test(s: &mut RefState, n: u8, v: u8, yx_src: u8) {
    let t = v & (1u8 << (n & 7));
    let f = (s.f & CF) | HF | flag(t == 0, ZF | PF) | (t & SF) | (yx_src & (YF | XF));
    set_f(s, f);
}

// ------------------------------------------------------------------------------------------
// 16-bit ALU
// ------------------------------------------------------------------------------------------
/// ADD HL,rr: S, Z, PV kept
fn add16(s: &mut RefState, x: u16, y: u16) -> u16 {
    let wide = x as u32 + y as u32;
    let r = (wide & 0xFFFF) as u16;
    let half = (x & 0x0FFF) + (y & 0x0FFF) > 0x0FFF;
    let f = (s.f & (SF | ZF | PF)) | (hi8(r) & (YF | XF)) | flag(half, HF) | flag(wide > 0xFFFF, CF);
    set_f(s, f);
    r
}
fn adc16(s: &mut RefState, x: u16, y: u16) -> u16 {
    let c = (s.f & CF) as u32;
    let wide = x as u32 + y as u32 + c;
    let r = (wide & 0xFFFF) as u16;
    let half = (x & 0x0FFF) as u32 + (y & 0x0FFF) as u32 + c > 0x0FFF;
    let ovf = (x ^ r) & (y ^ r) & 0x8000 != 0;
    let f = flag(r & 0x8000 != 0, SF)
        | flag(r == 0, ZF)
        | (hi8(r) & (YF | XF))
        | flag(half, HF)
        | flag(ovf, PF)
        | flag(wide > 0xFFFF, CF);
    set_f(s, f);
    r
}
fn sbc16(s: &mut RefState, x: u16, y: u16) -> u16 {
    let c = (s.f & CF) as u32;
    let r = x.wrapping_sub(y).wrapping_sub(c as u16);
    let half = ((x & 0x0FFF) as u32) < (y & 0x0FFF) as u32 + c;
    let borrow = (x as u32) < y as u32 + c;
    let ovf = (x ^ y) & (x ^ r) & 0x8000 != 0;
    let f = flag(r & 0x8000 != 0, SF)
        | flag(r == 0, ZF)
        | (hi8(r) & (YF | XF))
        | flag(half, HF)
        | flag(ovf, PF)
        | NF
        | flag(borrow, CF);
    set_f(s, f);
    r
}

// ------------------------------------------------------------------------------------------
// step
// ------------------------------------------------------------------------------------------
/// One step: interrupt sampling/entry, then one instruction (or one element of a prefix chain).
pub fn ref_step<B: RefBus>(s: &mut RefState, bus: &mut B) {
    if s.int_inhibit {
        // EI / DI / mid-prefix-chain: no sampling before this instruction
        s.int_inhibit = false;
    } else if bus.nmi_line() {
        accept_nmi(s, bus);
    } else if bus.int_line() && s.iff1 {
        accept_int(s, bus);
    }
    instruction(s, bus);
    bus.step_end(s.pc);
}

/// common part of interrupt acknowledge: Q cleared, HALT left, R counts the acknowledge cycle
fn leave_halt_and_ack<B: RefBus>(s: &mut RefState, bus: &mut B) {
    s.q = 0;
    if s.halted {
        bus.halt_line(false);
        s.halted = false;
        // PC was held at the HALT opcode; the return address is the byte behind it
        s.pc = s.pc.wrapping_add(1);
    }
    inc_r(s);
}
/// NMI: 5 T acknowledge, push PC, jump to 0x0066 (11 T). IFF2 keeps the old IFF1.
fn accept_nmi<B: RefBus>(s: &mut RefState, bus: &mut B) {
    leave_halt_and_ack(s, bus);
    s.iff1 = false;
    bus.internal(s.pc, 5);
    let ret = s.pc;
    push16(s, bus, ret);
    s.pc = 0x0066;
    s.memptr = s.pc;
}
/// maskable interrupt: IM0 (bus byte assumed RST 38h) and IM1 13 T, IM2 19 T
fn accept_int<B: RefBus>(s: &mut RefState, bus: &mut B) {
    leave_halt_and_ack(s, bus);
    s.iff1 = false;
    s.iff2 = false;
    let ret = s.pc;
    push16(s, bus, ret);
    if s.im == 2 {
        let vector = mk16(s.i, bus.int_ack());
        s.pc = read16(bus, vector);
    } else {
        s.pc = 0x0038;
    }
    bus.idle(7);
    s.memptr = s.pc;
}

/// Fetch and execute one instruction, honouring a prefix already fetched by the previous step.
fn instruction<B: RefBus>(s: &mut RefState, bus: &mut B) {
    let first = if s.pending_prefix != 0 {
        let p = s.pending_prefix;
        s.pending_prefix = 0;
        p
    } else {
        fetch_m1(s, bus)
    };
    match first {
        0xDD => indexed(s, bus, Idx::Ix),
        0xFD => indexed(s, bus, Idx::Iy),
        0xED => {
            let op = fetch_m1(s, bus);
            let _ = latch_q(s);
            exec_ed(s, bus, op);
        }
        0xCB => {
            let op = fetch_m1(s, bus);
            let _ = latch_q(s);
            exec_cb(s, bus, op);
        }
        op => {
            let q_prev = latch_q(s);
            exec_main(s, bus, op, Idx::Hl, q_prev);
        }
    }
}
/// Q of the previous instruction is consumed (SCF/CCF look at it), Q restarts at 0
#[inline]
fn latch_q(s: &mut RefState) -> u8 {
    let q_prev = s.q;
    s.q = 0;
    q_prev
}
/// after a DD/FD prefix
fn indexed<B: RefBus>(s: &mut RefState, bus: &mut B, idx: Idx) {
    let op = fetch_m1(s, bus);
    match op {
        0xDD | 0xED | 0xFD => {
            // the previous prefix is discarded; the new one starts over in the next step and no
            // interrupt can be accepted in between.  Q is not touched.
            s.pending_prefix = op;
            s.int_inhibit = true;
        }
        0xCB => {
            let _ = latch_q(s);
            exec_idx_cb(s, bus, idx);
        }
        _ => {
            let q_prev = latch_q(s);
            exec_main(s, bus, op, idx, q_prev);
        }
    }
}

// ------------------------------------------------------------------------------------------
// unprefixed / DD / FD table
// ------------------------------------------------------------------------------------------
fn exec_main<B: RefBus>(s: &mut RefState, bus: &mut B, op: u8, idx: Idx, q_prev: u8) {
    let y = (op >> 3) & 7;
    let z = op & 7;
    let p = y >> 1;
    let odd = y & 1 != 0;
    match op >> 6 {
        0 => match z {
            0 => match y {
                0 => {} // NOP
                1 => {
                    // EX AF,AF' (a register exchange, not a flag computation: Q stays 0)
                    let (a, f) = (s.a, s.f);
                    s.a = s.a_alt;
                    s.f = s.f_alt;
                    s.a_alt = a;
                    s.f_alt = f;
                }
                2 => {
                    // DJNZ d
                    bus.internal(ir(s), 1);
                    let d = bus.mem_read(s.pc);
                    s.b = s.b.wrapping_sub(1);
                    if s.b != 0 {
                        bus.internal(s.pc, 5);
                        s.pc = add_disp(s.pc.wrapping_add(1), d);
                        s.memptr = s.pc;
                    } else {
                        s.pc = s.pc.wrapping_add(1);
                    }
                }
                _ => {
                    // JR d / JR cc,d (cc = NZ,Z,NC,C)
                    let d = bus.mem_read(s.pc);
                    if y == 3 || cond(s, y & 3) {
                        bus.internal(s.pc, 5);
                        s.pc = add_disp(s.pc.wrapping_add(1), d);
                        s.memptr = s.pc;
                    } else {
                        s.pc = s.pc.wrapping_add(1);
                    }
                }
            },
            1 => {
                if !odd {
                    // LD rr,nn
                    let v = imm16(s, bus);
                    set_rp(s, p, idx, v);
                } else {
                    // ADD HL,rr
                    bus.internal(ir(s), 7);
                    let x = hlx(s, idx);
                    let v = rp(s, p, idx);
                    s.memptr = x.wrapping_add(1);
                    let r = add16(s, x, v);
                    set_hlx(s, idx, r);
                }
            }
            2 => match y {
                0 | 2 => {
                    // LD (BC),A / LD (DE),A
                    let addr = if y == 0 { bc(s) } else { de(s) };
                    bus.mem_write(addr, s.a);
                    s.memptr = mk16(s.a, lo8(addr.wrapping_add(1)));
                }
                1 | 3 => {
                    // LD A,(BC) / LD A,(DE)
                    let addr = if y == 1 { bc(s) } else { de(s) };
                    s.a = bus.mem_read(addr);
                    s.memptr = addr.wrapping_add(1);
                }
                4 => {
                    // LD (nn),HL
                    let nn = imm16(s, bus);
                    let v = hlx(s, idx);
                    write16(bus, nn, v);
                    s.memptr = nn.wrapping_add(1);
                }
                5 => {
                    // LD HL,(nn)
                    let nn = imm16(s, bus);
                    let v = read16(bus, nn);
                    set_hlx(s, idx, v);
                    s.memptr = nn.wrapping_add(1);
                }
                6 => {
                    // LD (nn),A
                    let nn = imm16(s, bus);
                    bus.mem_write(nn, s.a);
                    s.memptr = mk16(s.a, lo8(nn.wrapping_add(1)));
                }
                _ => {
                    // LD A,(nn)
                    let nn = imm16(s, bus);
                    s.a = bus.mem_read(nn);
                    s.memptr = nn.wrapping_add(1);
                }
            },
            3 => {
                // INC rr / DEC rr: no flags
                bus.internal(ir(s), 2);
                let v = rp(s, p, idx);
                let r = if odd { v.wrapping_sub(1) } else { v.wrapping_add(1) };
                set_rp(s, p, idx, r);
            }
            4 | 5 => {
                // INC r / DEC r / INC (HL) / DEC (HL)
                if y == 6 {
                    let addr = mem_operand_addr(s, bus, idx);
                    let v = bus.mem_read(addr);
                    bus.internal(addr, 1);
                    let r = if z == 4 { inc8(s, v) } else { dec8(s, v) };
                    bus.mem_write(addr, r);
                } else {
                    let v = r8(s, y, idx);
                    let r = if z == 4 { inc8(s, v) } else { dec8(s, v) };
                    set_r8(s, y, idx, r);
                }
            }
            6 => {
                // LD r,n / LD (HL),n
                if y == 6 {
                    match idx {
                        Idx::Hl => {
                            let n = imm8(s, bus);
                            bus.mem_write(mk16(s.h, s.l), n);
                        }
                        _ => {
                            // LD (IX+d),n: the displacement addition overlaps the fetch of n
                            let d = imm8(s, bus);
                            let n = bus.mem_read(s.pc);
                            bus.internal(s.pc, 2);
                            s.pc = s.pc.wrapping_add(1);
                            let addr = add_disp(hlx(s, idx), d);
                            s.memptr = addr;
                            bus.mem_write(addr, n);
                        }
                    }
                } else {
                    let n = imm8(s, bus);
                    set_r8(s, y, idx, n);
                }
            }
            _ => match y {
                0 | 1 | 2 | 3 => rot_a(s, y),
                4 => daa(s),
                5 => {
                    // CPL
                    s.a = !s.a;
                    let f = (s.f & (SF | ZF | PF | CF)) | HF | NF | (s.a & (YF | XF));
                    set_f(s, f);
                }
                6 => {
                    // SCF: bits 5/3 = A OR (F where the previous instruction left F alone)
                    let yx = ((q_prev ^ s.f) | s.a) & (YF | XF);
                    let f = (s.f & (SF | ZF | PF)) | yx | CF;
                    set_f(s, f);
                }
                _ => {
                    // CCF: H := old C
                    let yx = ((q_prev ^ s.f) | s.a) & (YF | XF);
                    let old_c = s.f & CF != 0;
                    let f = (s.f & (SF | ZF | PF)) | yx | flag(old_c, HF) | flag(!old_c, CF);
                    set_f(s, f);
                }
            },
        },
        1 => {
            if op == 0x76 {
                // HALT: PC is held at the HALT opcode
                s.halted = true;
                bus.halt_line(true);
                s.pc = s.pc.wrapping_sub(1);
            } else if z == 6 {
                // LD r,(HL) / LD r,(IX+d): r is the plain register
                let addr = mem_operand_addr(s, bus, idx);
                let v = bus.mem_read(addr);
                set_r8(s, y, Idx::Hl, v);
            } else if y == 6 {
                // LD (HL),r / LD (IX+d),r
                let addr = mem_operand_addr(s, bus, idx);
                let v = r8(s, z, Idx::Hl);
                bus.mem_write(addr, v);
            } else {
                let v = r8(s, z, idx);
                set_r8(s, y, idx, v);
            }
        }
        2 => {
            // ALU A,r / ALU A,(HL)
            let v = if z == 6 {
                let addr = mem_operand_addr(s, bus, idx);
                bus.mem_read(addr)
            } else {
                r8(s, z, idx)
            };
            alu8(s, y, v);
        }
        _ => match z {
            0 => {
                // RET cc
                bus.internal(ir(s), 1);
                if cond(s, y) {
                    s.pc = pop16(s, bus);
                    s.memptr = s.pc;
                }
            }
            1 => {
                if !odd {
                    // POP rr (POP AF loads F from the data bus: Q stays 0)
                    let v = pop16(s, bus);
                    if p == 3 {
                        s.a = hi8(v);
                        s.f = lo8(v);
                    } else {
                        set_rp(s, p, idx, v);
                    }
                } else {
                    match p {
                        0 => {
                            // RET
                            s.pc = pop16(s, bus);
                            s.memptr = s.pc;
                        }
                        1 => {
                            // EXX
                            let (b, c, d, e, h, l) = (s.b, s.c, s.d, s.e, s.h, s.l);
                            s.b = s.b_alt;
                            s.c = s.c_alt;
                            s.d = s.d_alt;
                            s.e = s.e_alt;
                            s.h = s.h_alt;
                            s.l = s.l_alt;
                            s.b_alt = b;
                            s.c_alt = c;
                            s.d_alt = d;
                            s.e_alt = e;
                            s.h_alt = h;
                            s.l_alt = l;
                        }
                        2 => s.pc = hlx(s, idx), // JP (HL)
                        _ => {
                            // LD SP,HL
                            bus.internal(ir(s), 2);
                            s.sp = hlx(s, idx);
                        }
                    }
                }
            }
            2 => {
                // JP cc,nn
                let nn = imm16(s, bus);
                s.memptr = nn;
                if cond(s, y) {
                    s.pc = nn;
                }
            }
            3 => match y {
                0 => {
                    // JP nn
                    let nn = imm16(s, bus);
                    s.memptr = nn;
                    s.pc = nn;
                }
                1 => {} // CB prefix: handled by the caller
                2 => {
                    // OUT (n),A
                    let n = imm8(s, bus);
                    bus.port_out(mk16(s.a, n), s.a);
                    s.memptr = mk16(s.a, n.wrapping_add(1));
                }
                3 => {
                    // IN A,(n)
                    let n = imm8(s, bus);
                    let port = mk16(s.a, n);
                    s.a = bus.port_in(port);
                    s.memptr = port.wrapping_add(1);
                }
                4 => {
                    // EX (SP),HL
                    let lo = bus.mem_read(s.sp);
                    let sp1 = s.sp.wrapping_add(1);
                    let hi = bus.mem_read(sp1);
                    bus.internal(sp1, 1);
                    let old = hlx(s, idx);
                    bus.mem_write(sp1, hi8(old));
                    bus.mem_write(s.sp, lo8(old));
                    bus.internal(s.sp, 2);
                    let new = mk16(hi, lo);
                    set_hlx(s, idx, new);
                    s.memptr = new;
                }
                5 => {
                    // EX DE,HL: never affected by DD/FD
                    let (d, e) = (s.d, s.e);
                    s.d = s.h;
                    s.e = s.l;
                    s.h = d;
                    s.l = e;
                }
                6 => {
                    // DI
                    s.iff1 = false;
                    s.iff2 = false;
                    s.int_inhibit = true;
                }
                _ => {
                    // EI: interrupts are accepted only after the following instruction
                    s.iff1 = true;
                    s.iff2 = true;
                    s.int_inhibit = true;
                }
            },
            4 => {
                // CALL cc,nn
                let nn = imm16(s, bus);
                s.memptr = nn;
                if cond(s, y) {
                    call(s, bus, nn);
                }
            }
            5 => {
                if !odd {
                    // PUSH rr
                    bus.internal(ir(s), 1);
                    let v = if p == 3 { mk16(s.a, s.f) } else { rp(s, p, idx) };
                    push16(s, bus, v);
                } else {
                    // CALL nn (p == 0; DD/ED/FD never reach this table)
                    let nn = imm16(s, bus);
                    s.memptr = nn;
                    call(s, bus, nn);
                }
            }
            6 => {
                // ALU A,n
                let n = imm8(s, bus);
                alu8(s, y, n);
            }
            _ => {
                // RST y*8
                bus.internal(ir(s), 1);
                let ret = s.pc;
                push16(s, bus, ret);
                s.pc = (y as u16) << 3;
                s.memptr = s.pc;
            }
        },
    }
}
/// taken CALL: the read cycle of the high operand byte is stretched by one T-state
fn call<B: RefBus>(s: &mut RefState, bus: &mut B, target: u16) {
    bus.internal(s.pc.wrapping_sub(1), 1);
    let ret = s.pc;
    push16(s, bus, ret);
    s.pc = target;
}

// ------------------------------------------------------------------------------------------
// CB table
// ------------------------------------------------------------------------------------------
/// rotate/shift (x=0), RES (x=2) or SET (x=3) applied to `v`; BIT is handled by the callers
fn cb_modify(s: &mut RefState, op: u8, v: u8) -> u8 {
    let y = (op >> 3) & 7;
    let mask = 1u8 << y;
    match op >> 6 {
        0 => rot8(s, y, v),
        2 => v & !mask,
        _ => v | mask,
    }
}
fn exec_cb<B: RefBus>(s: &mut RefState, bus: &mut B, op: u8) {
    let y = (op >> 3) & 7;
    let z = op & 7;
    let is_bit = op >> 6 == 1;
    if z == 6 {
        let addr = mk16(s.h, s.l);
        let v = bus.mem_read(addr);
        bus.internal(addr, 1);
        if is_bit {
            // BIT n,(HL): bits 5/3 leak from the high byte of MEMPTR
            let yx = hi8(s.memptr);
            bit_test(s, y, v, yx);
        } else {
            let r = cb_modify(s, op, v);
            bus.mem_write(addr, r);
        }
    } else {
        let v = r8(s, z, Idx::Hl);
        if is_bit {
            bit_test(s, y, v, v);
        } else {
            let r = cb_modify(s, op, v);
            set_r8(s, z, Idx::Hl, r);
        }
    }
}
/// DD CB d op / FD CB d op: always operates on (IX+d); for z != 6 the result is also copied
/// to register z (undocumented).  d and op are read with plain 3 T read cycles, the second
/// one stretched by two T-states.
fn exec_idx_cb<B: RefBus>(s: &mut RefState, bus: &mut B, idx: Idx) {
    let d = imm8(s, bus);
    let op = bus.mem_read(s.pc);
    bus.internal(s.pc, 2);
    s.pc = s.pc.wrapping_add(1);
    let addr = add_disp(hlx(s, idx), d);
    s.memptr = addr;
    let y = (op >> 3) & 7;
    let z = op & 7;
    let v = bus.mem_read(addr);
    bus.internal(addr, 1);
    if op >> 6 == 1 {
        bit_test(s, y, v, hi8(addr));
    } else {
        let r = cb_modify(s, op, v);
        bus.mem_write(addr, r);
        if z != 6 {
            set_r8(s, z, Idx::Hl, r);
        }
    }
}

// ------------------------------------------------------------------------------------------
// ED table
// ------------------------------------------------------------------------------------------
fn exec_ed<B: RefBus>(s: &mut RefState, bus: &mut B, op: u8) {
    let y = (op >> 3) & 7;
    let z = op & 7;
    let p = y >> 1;
    let odd = y & 1 != 0;
    match op >> 6 {
        1 => match z {
            0 => {
                // IN r,(C); y == 6 affects flags only
                let port = bc(s);
                let v = bus.port_in(port);
                s.memptr = port.wrapping_add(1);
                if y != 6 {
                    set_r8(s, y, Idx::Hl, v);
                }
                let f = (s.f & CF) | sz53p(v);
                set_f(s, f);
            }
            1 => {
                // OUT (C),r; y == 6 outputs 0 on NMOS parts
                let port = bc(s);
                let v = if y == 6 { 0 } else { r8(s, y, Idx::Hl) };
                bus.port_out(port, v);
                s.memptr = port.wrapping_add(1);
            }
            2 => {
                // SBC HL,rr / ADC HL,rr
                bus.internal(ir(s), 7);
                let x = mk16(s.h, s.l);
                let v = rp(s, p, Idx::Hl);
                s.memptr = x.wrapping_add(1);
                let r = if odd { adc16(s, x, v) } else { sbc16(s, x, v) };
                set_hlx(s, Idx::Hl, r);
            }
            3 => {
                // LD (nn),rr / LD rr,(nn)
                let nn = imm16(s, bus);
                if odd {
                    let v = read16(bus, nn);
                    set_rp(s, p, Idx::Hl, v);
                } else {
                    let v = rp(s, p, Idx::Hl);
                    write16(bus, nn, v);
                }
                s.memptr = nn.wrapping_add(1);
            }
            4 => {
                // NEG (all eight encodings)
                let v = s.a;
                s.a = 0;
                alu_sub(s, v, 0, false);
            }
            5 => {
                // RETN (and its mirrors) / RETI (ED 4D): IFF1 := IFF2 in all of them
                s.pc = pop16(s, bus);
                s.memptr = s.pc;
                s.iff1 = s.iff2;
                if y == 1 {
                    bus.reti();
                }
            }
            6 => {
                // IM 0, 0/1, 1, 2, 0, 0/1, 1, 2
                s.im = match y & 3 {
                    0 | 1 => 0,
                    2 => 1,
                    _ => 2,
                };
            }
            _ => match y {
                0 => {
                    // LD I,A
                    bus.internal(ir(s), 1);
                    s.i = s.a;
                }
                1 => {
                    // LD R,A: all eight bits are loaded
                    bus.internal(ir(s), 1);
                    s.r = s.a;
                }
                2 | 3 => {
                    // LD A,I / LD A,R: PV := IFF2
                    bus.internal(ir(s), 1);
                    s.a = if y == 2 { s.i } else { s.r };
                    let f = (s.f & CF) | sz53(s.a) | flag(s.iff2, PF);
                    set_f(s, f);
                }
                4 | 5 => {
                    // RRD / RLD
                    let addr = mk16(s.h, s.l);
                    let m = bus.mem_read(addr);
                    bus.internal(addr, 4);
                    let (new_m, new_a) = if y == 4 {
                        ((s.a << 4) | (m >> 4), (s.a & 0xF0) | (m & 0x0F))
                    } else {
                        ((m << 4) | (s.a & 0x0F), (s.a & 0xF0) | (m >> 4))
                    };
                    bus.mem_write(addr, new_m);
                    s.a = new_a;
                    s.memptr = addr.wrapping_add(1);
                    let f = (s.f & CF) | sz53p(s.a);
                    set_f(s, f);
                }
                _ => {} // ED 77 / ED 7F: NOP
            },
        },
        2 => {
            if y >= 4 && z <= 3 {
                let decrement = y & 1 != 0;
                let repeat = y >= 6;
                match z {
                    0 => block_ld(s, bus, decrement, repeat),
                    1 => block_cp(s, bus, decrement, repeat),
                    2 => block_in(s, bus, decrement, repeat),
                    _ => block_out(s, bus, decrement, repeat),
                }
            }
            // everything else: 8 T NOP
        }
        _ => {} // ED 00..3F, ED C0..FF: 8 T NOP
    }
}
#[inline]
fn step16(v: u16, decrement: bool) -> u16 {
    if decrement {
        v.wrapping_sub(1)
    } else {
        v.wrapping_add(1)
    }
}
/// A repeating block instruction that is going to be re-executed: PC back on the ED prefix,
/// bits 5/3 of F from the high byte of that PC.
fn block_rewind(s: &mut RefState) {
    s.pc = s.pc.wrapping_sub(2);
    s.f = (s.f & !(YF | XF)) | (hi8(s.pc) & (YF | XF));
}
/// LDI LDD LDIR LDDR
fn block_ld<B: RefBus>(s: &mut RefState, bus: &mut B, decrement: bool, repeat: bool) {
    let src = mk16(s.h, s.l);
    let dst = de(s);
    let v = bus.mem_read(src);
    bus.mem_write(dst, v);
    bus.internal(dst, 2);
    set_hlx(s, Idx::Hl, step16(src, decrement));
    set_de(s, step16(dst, decrement));
    let count = bc(s).wrapping_sub(1);
    set_bc(s, count);
    let n = v.wrapping_add(s.a);
    s.f = (s.f & (SF | ZF | CF)) | flag(n & 0x02 != 0, YF) | (n & XF) | flag(count != 0, PF);
    if repeat && count != 0 {
        bus.internal(dst, 5);
        block_rewind(s);
        s.memptr = s.pc.wrapping_add(1);
    }
    s.q = s.f;
}
/// CPI CPD CPIR CPDR
fn block_cp<B: RefBus>(s: &mut RefState, bus: &mut B, decrement: bool, repeat: bool) {
    let src = mk16(s.h, s.l);
    let v = bus.mem_read(src);
    bus.internal(src, 5);
    set_hlx(s, Idx::Hl, step16(src, decrement));
    let count = bc(s).wrapping_sub(1);
    set_bc(s, count);
    let r = s.a.wrapping_sub(v);
    let half = (s.a & 0x0F) < (v & 0x0F);
    let n = r.wrapping_sub(half as u8);
    s.f = (s.f & CF)
        | NF
        | flag(r & 0x80 != 0, SF)
        | flag(r == 0, ZF)
        | flag(half, HF)
        | flag(n & 0x02 != 0, YF)
        | (n & XF)
        | flag(count != 0, PF);
    s.memptr = step16(s.memptr, decrement);
    if repeat && count != 0 && r != 0 {
        bus.internal(src, 5);
        block_rewind(s);
        s.memptr = s.pc.wrapping_add(1);
    }
    s.q = s.f;
}
/// flags common to INI/IND/OUTI/OUTD: `k` is the 9-bit sum the hardware forms
fn block_io_flags(s: &mut RefState, v: u8, k: u16) {
    s.f = sz53(s.b)
        | flag(v & 0x80 != 0, NF)
        | flag(k > 0xFF, HF | CF)
        | parity((lo8(k) & 7) ^ s.b);
}
/// INIR/INDR/OTIR/OTDR going round again (ZX Spectrum Next team research):
/// bits 5/3 from PC, and H/PV reflect an extra +-1 on B when the base instruction set C.
fn block_io_repeat(s: &mut RefState, k: u16) {
    block_rewind(s);
    let b = s.b;
    let tmp = if s.f & CF == 0 {
        b
    } else if s.f & NF != 0 {
        b.wrapping_sub(1)
    } else {
        b.wrapping_add(1)
    };
    let half = (tmp ^ b) & 0x10 != 0;
    let pv = parity((lo8(k) & 7) ^ b ^ (tmp & 7));
    s.f = (s.f & !(HF | PF)) | flag(half, HF) | pv;
}
/// INI IND INIR INDR
fn block_in<B: RefBus>(s: &mut RefState, bus: &mut B, decrement: bool, repeat: bool) {
    bus.internal(ir(s), 1);
    let port = bc(s);
    let v = bus.port_in(port);
    let dst = mk16(s.h, s.l);
    bus.mem_write(dst, v);
    s.memptr = step16(port, decrement);
    s.b = s.b.wrapping_sub(1);
    set_hlx(s, Idx::Hl, step16(dst, decrement));
    let c_adj = if decrement { s.c.wrapping_sub(1) } else { s.c.wrapping_add(1) };
    let k = v as u16 + c_adj as u16;
    block_io_flags(s, v, k);
    if repeat && s.b != 0 {
        bus.internal(dst, 5);
        block_io_repeat(s, k);
    }
    s.q = s.f;
}
/// OUTI OUTD OTIR OTDR
fn block_out<B: RefBus>(s: &mut RefState, bus: &mut B, decrement: bool, repeat: bool) {
    bus.internal(ir(s), 1);
    let src = mk16(s.h, s.l);
    let v = bus.mem_read(src);
    s.b = s.b.wrapping_sub(1);
    let port = bc(s);
    bus.port_out(port, v);
    s.memptr = step16(port, decrement);
    set_hlx(s, Idx::Hl, step16(src, decrement));
    let k = v as u16 + s.l as u16;
    block_io_flags(s, v, k);
    if repeat && s.b != 0 {
        bus.internal(port, 5);
        block_io_repeat(s, k);
    }
    s.q = s.f;
}
