//! Recording buses: the real CPU runs on `RecBus` (implements the crate's `Z80Bus`), the
//! reference runs on `RefRecBus` (implements `RefBus`).  Both draw their read answers from the
//! same symbolic answer stream, in their own order, and log every bus event in the same
//! `Z80Bus`-level vocabulary, so the two logs can be compared afterwards.
use super::iface::RefBus;
use crate::{opcode::Opcode, opcode::Prefix, Z80Bus};

pub const NEV: usize = 28;
pub const NANS: usize = 10;

pub const K_MREQ: u8 = 1; // wait_mreq(addr, clk)
pub const K_NOMREQ: u8 = 2; // wait_no_mreq(addr, clk)
pub const K_IDLE: u8 = 3; // wait_internal(clk)
pub const K_RD: u8 = 4; // read_internal(addr) -> data
pub const K_WR: u8 = 5; // write_internal(addr, data)
pub const K_IN: u8 = 6; // read_io(port) -> data
pub const K_OUT: u8 = 7; // write_io(port, data)
pub const K_ACK: u8 = 8; // read_interrupt() -> data
pub const K_RETI: u8 = 9;
pub const K_HALT: u8 = 10; // halt(level) in data
pub const K_PC: u8 = 11; // pc_callback(addr)

#[derive(Clone, Copy, PartialEq, Eq)]
pub struct Ev {
    pub kind: u8,
    pub addr: u16,
    pub data: u8,
    pub clk: u8,
}
pub const EV0: Ev = Ev { kind: 0, addr: 0, data: 0, clk: 0 };

#[derive(Clone, Copy)]
pub struct Log {
    /// every event (C03)
    pub full: [Ev; NEV],
    pub n: usize,
    /// memory / port / int-ack data transfers only (C01)
    pub data: [Ev; NEV],
    pub nd: usize,
    pub overflow: bool,
    pub answers: [u8; NANS],
    pub na: usize,
    pub int: bool,
    pub nmi: bool,
    /// total T-states (port cycles count 4)
    pub t: u32,
}

impl Log {
    pub fn new(answers: [u8; NANS], int: bool, nmi: bool) -> Self {
        Log { full: [EV0; NEV], n: 0, data: [EV0; NEV], nd: 0, overflow: false, answers, na: 0, int, nmi, t: 0 }
    }
    fn push(&mut self, e: Ev) {
        if self.n < NEV {
            self.full[self.n] = e;
            self.n += 1;
        } else {
            self.overflow = true;
        }
        if e.kind == K_RD || e.kind == K_WR || e.kind == K_IN || e.kind == K_OUT || e.kind == K_ACK {
            if self.nd < NEV {
                self.data[self.nd] = Ev { clk: 0, ..e };
                self.nd += 1;
            }
        }
        self.t += match e.kind {
            K_MREQ | K_NOMREQ | K_IDLE => e.clk as u32,
            K_IN | K_OUT => 4,
            _ => 0,
        };
    }
    fn answer(&mut self) -> u8 {
        if self.na < NANS {
            let v = self.answers[self.na];
            self.na += 1;
            v
        } else {
            self.overflow = true;
            0
        }
    }
}

pub struct RecBus(pub Log);

impl Z80Bus for RecBus {
    fn read_internal(&mut self, addr: u16) -> u8 {
        let data = self.0.answer();
        self.0.push(Ev { kind: K_RD, addr, data, clk: 0 });
        data
    }
    fn write_internal(&mut self, addr: u16, data: u8) {
        self.0.push(Ev { kind: K_WR, addr, data, clk: 0 });
    }
    fn wait_mreq(&mut self, addr: u16, clk: usize) {
        self.0.push(Ev { kind: K_MREQ, addr, data: 0, clk: clk as u8 });
    }
    fn wait_no_mreq(&mut self, addr: u16, clk: usize) {
        self.0.push(Ev { kind: K_NOMREQ, addr, data: 0, clk: clk as u8 });
    }
    fn wait_internal(&mut self, clk: usize) {
        self.0.push(Ev { kind: K_IDLE, addr: 0, data: 0, clk: clk as u8 });
    }
    fn read_io(&mut self, port: u16) -> u8 {
        let data = self.0.answer();
        self.0.push(Ev { kind: K_IN, addr: port, data, clk: 0 });
        data
    }
    fn write_io(&mut self, port: u16, data: u8) {
        self.0.push(Ev { kind: K_OUT, addr: port, data, clk: 0 });
    }
    fn read_interrupt(&mut self) -> u8 {
        let data = self.0.answer();
        self.0.push(Ev { kind: K_ACK, addr: 0, data, clk: 0 });
        data
    }
    fn reti(&mut self) {
        self.0.push(Ev { kind: K_RETI, addr: 0, data: 0, clk: 0 });
    }
    fn halt(&mut self, halted: bool) {
        self.0.push(Ev { kind: K_HALT, addr: 0, data: halted as u8, clk: 0 });
    }
    fn int_active(&self) -> bool {
        self.0.int
    }
    fn nmi_active(&self) -> bool {
        self.0.nmi
    }
    fn pc_callback(&mut self, addr: u16) {
        self.0.push(Ev { kind: K_PC, addr, data: 0, clk: 0 });
    }
    fn process_unknown_opcode(&mut self, _prefix: Prefix, _opcode: Opcode) {}
}

/// The reference runs against the log recorded from the real CPU: every bus operation it
/// performs must be the next recorded one (C03: kind, address, clocks; C01: the data-transfer
/// subsequence with addresses and data); read answers are taken from the recorded transfer.
pub struct ReplayBus<'a> {
    pub real: &'a Log,
    pub i: usize,
    pub j: usize,
    /// full bus-cycle script matched so far (C03)
    pub ok_full: bool,
    /// data-transfer subsequence matched so far (C01)
    pub ok_data: bool,
    pub t: u32,
    /// last two bytes fetched by M1 cycles
    pub m1_prev: u8,
    pub m1_last: u8,
    pub n_m1: u8,
}

impl<'a> ReplayBus<'a> {
    pub fn new(real: &'a Log) -> Self {
        ReplayBus { real, i: 0, j: 0, ok_full: true, ok_data: true, t: 0, m1_prev: 0, m1_last: 0, n_m1: 0 }
    }
    fn expect(&mut self, e: Ev) {
        if self.i < self.real.n && self.i < NEV {
            if self.real.full[self.i] != e {
                self.ok_full = false;
            }
        } else {
            self.ok_full = false;
        }
        self.i += 1;
        self.t += match e.kind {
            K_MREQ | K_NOMREQ | K_IDLE => e.clk as u32,
            K_IN | K_OUT => 4,
            _ => 0,
        };
    }
    /// next recorded data transfer must be (kind, addr[, data]); returns its data
    fn transfer(&mut self, kind: u8, addr: u16, data: Option<u8>) -> u8 {
        let mut out = 0;
        if self.j < self.real.nd && self.j < NEV {
            let r = self.real.data[self.j];
            if r.kind != kind || r.addr != addr {
                self.ok_data = false;
            }
            if let Some(d) = data {
                if r.data != d {
                    self.ok_data = false;
                }
            }
            out = r.data;
        } else {
            self.ok_data = false;
        }
        self.j += 1;
        out
    }
    pub fn finish(&mut self) {
        if self.i != self.real.n {
            self.ok_full = false;
        }
        if self.j != self.real.nd {
            self.ok_data = false;
        }
    }
}

impl<'a> RefBus for ReplayBus<'a> {
    fn m1(&mut self, addr: u16) -> u8 {
        let data = self.transfer(K_RD, addr, None);
        self.expect(Ev { kind: K_MREQ, addr, data: 0, clk: 4 });
        self.expect(Ev { kind: K_RD, addr, data, clk: 0 });
        self.m1_prev = self.m1_last;
        self.m1_last = data;
        self.n_m1 += 1;
        data
    }
    fn mem_read(&mut self, addr: u16) -> u8 {
        let data = self.transfer(K_RD, addr, None);
        self.expect(Ev { kind: K_MREQ, addr, data: 0, clk: 3 });
        self.expect(Ev { kind: K_RD, addr, data, clk: 0 });
        data
    }
    fn mem_write(&mut self, addr: u16, value: u8) {
        self.transfer(K_WR, addr, Some(value));
        self.expect(Ev { kind: K_MREQ, addr, data: 0, clk: 3 });
        self.expect(Ev { kind: K_WR, addr, data: value, clk: 0 });
    }
    fn internal(&mut self, addr: u16, n: u8) {
        let mut k = 0;
        while k < n {
            self.expect(Ev { kind: K_NOMREQ, addr, data: 0, clk: 1 });
            k += 1;
        }
    }
    fn idle(&mut self, n: u8) {
        self.expect(Ev { kind: K_IDLE, addr: 0, data: 0, clk: n });
    }
    fn port_in(&mut self, port: u16) -> u8 {
        let data = self.transfer(K_IN, port, None);
        self.expect(Ev { kind: K_IN, addr: port, data, clk: 0 });
        data
    }
    fn port_out(&mut self, port: u16, value: u8) {
        self.transfer(K_OUT, port, Some(value));
        self.expect(Ev { kind: K_OUT, addr: port, data: value, clk: 0 });
    }
    fn int_ack(&mut self) -> u8 {
        let data = self.transfer(K_ACK, 0, None);
        self.expect(Ev { kind: K_ACK, addr: 0, data, clk: 0 });
        data
    }
    fn int_line(&mut self) -> bool {
        self.real.int
    }
    fn nmi_line(&mut self) -> bool {
        self.real.nmi
    }
    fn halt_line(&mut self, level: bool) {
        self.expect(Ev { kind: K_HALT, addr: 0, data: level as u8, clk: 0 });
    }
    fn reti(&mut self) {
        self.expect(Ev { kind: K_RETI, addr: 0, data: 0, clk: 0 });
    }
    fn step_end(&mut self, pc: u16) {
        self.expect(Ev { kind: K_PC, addr: pc, data: 0, clk: 0 });
    }
}
