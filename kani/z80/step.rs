//! One symbolic/concrete step of the real CPU next to one step of the reference, and the
//! comparison.  Shared by the Kani harnesses and the native replay tool.
use super::bus::*;
use super::iface::*;
use super::reference::ref_step;
use crate::{VRegs, Z80};

#[derive(Clone, Copy, Debug)]
pub struct Start {
    pub regs: VRegs,
    pub halted: bool,
    pub skip_interrupt: bool,
    pub im: u8,
    pub prefix: u8,
    pub answers: [u8; NANS],
    pub int: bool,
    pub nmi: bool,
}

/// reachable-state invariants of `Z80` (type invariant, goes into every precondition)
pub fn valid(s: &Start) -> bool {
    s.im <= 2
        && (s.prefix == 0 || s.prefix == 0xDD || s.prefix == 0xED || s.prefix == 0xFD)
        && (s.prefix == 0 || s.skip_interrupt)
        && (!s.halted || s.prefix == 0)
}

pub fn to_ref(s: &Start) -> RefState {
    let v = &s.regs;
    RefState {
        a: v.a, f: v.f, b: v.b, c: v.c, d: v.d, e: v.e, h: v.h, l: v.l,
        a_alt: v.a_alt, f_alt: v.f_alt, b_alt: v.b_alt, c_alt: v.c_alt,
        d_alt: v.d_alt, e_alt: v.e_alt, h_alt: v.h_alt, l_alt: v.l_alt,
        ixh: v.ixh, ixl: v.ixl, iyh: v.iyh, iyl: v.iyl, i: v.i, r: v.r,
        pc: v.pc, sp: v.sp, memptr: v.mem_ptr, q: v.q,
        iff1: v.iff1, iff2: v.iff2, im: s.im, halted: s.halted,
        pending_prefix: s.prefix, int_inhibit: s.skip_interrupt,
    }
}

pub fn real_state(cpu: &Z80) -> RefState {
    let v = cpu.regs.verif_get();
    RefState {
        a: v.a, f: v.f, b: v.b, c: v.c, d: v.d, e: v.e, h: v.h, l: v.l,
        a_alt: v.a_alt, f_alt: v.f_alt, b_alt: v.b_alt, c_alt: v.c_alt,
        d_alt: v.d_alt, e_alt: v.e_alt, h_alt: v.h_alt, l_alt: v.l_alt,
        ixh: v.ixh, ixl: v.ixl, iyh: v.iyh, iyl: v.iyl, i: v.i, r: v.r,
        pc: v.pc, sp: v.sp, memptr: v.mem_ptr, q: v.q,
        iff1: v.iff1, iff2: v.iff2, im: cpu.verif_im(), halted: cpu.halted,
        pending_prefix: cpu.verif_active_prefix(), int_inhibit: cpu.skip_interrupt,
    }
}

pub fn make_cpu(s: &Start) -> Z80 {
    let mut cpu = Z80::default();
    cpu.regs.verif_set(&s.regs);
    cpu.halted = s.halted;
    cpu.skip_interrupt = s.skip_interrupt;
    cpu.set_im(s.im);
    cpu.verif_set_active_prefix(s.prefix);
    cpu
}

pub struct Outcome {
    pub real: RefState,
    pub spec: RefState,
    pub overflow: bool,
    /// C01: data transfers identical
    pub ok_data: bool,
    /// C03: complete bus-cycle script identical
    pub ok_full: bool,
    pub t_real: u32,
    pub t_spec: u32,
    /// Q is unspecified after this step (see `q_unspecified`)
    pub q_waived: bool,
}

pub fn run_both(s: &Start) -> Outcome {
    let (o, _) = run_both_log(s);
    o
}

pub fn run_both_log(s: &Start) -> (Outcome, Log) {
    let mut cpu = make_cpu(s);
    let mut rb = RecBus(Log::new(s.answers, s.int, s.nmi));
    cpu.emulate(&mut rb);
    let log = rb.0;
    let mut st = to_ref(s);
    let mut fb = ReplayBus::new(&log);
    ref_step(&mut st, &mut fb);
    fb.finish();
    let real = real_state(&cpu);
    // Q after a *repeating* LDIR/LDDR/CPIR/CPDR iteration: no documentation pins it and it is
    // unobservable unless the block operation overwrites its own opcode; not compared (DESIGN §4.C01)
    let ed_op = (fb.n_m1 >= 2 && fb.m1_prev == 0xED) || (s.prefix == 0xED && fb.n_m1 == 1);
    let blk = ed_op
        && (fb.m1_last == 0xB0 || fb.m1_last == 0xB1 || fb.m1_last == 0xB8 || fb.m1_last == 0xB9);
    let q_waived = blk && st.pc == s.regs.pc.wrapping_sub(if s.prefix == 0xED { 1 } else { 0 }) && real.f == st.f;
    let o = Outcome {
        real, spec: st, overflow: log.overflow, ok_data: fb.ok_data, ok_full: fb.ok_full,
        t_real: log.t, t_spec: fb.t, q_waived,
    };
    (o, log)
}
