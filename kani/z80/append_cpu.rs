
// ---- appended by /verif/kani/inject.py (scratch copy only, add-only) ----
#[cfg(any(kani, rustzx_verif))]
impl Z80 {
    /// 0 or the pending prefix byte
    pub fn verif_active_prefix(&self) -> u8 {
        match self.active_prefix {
            Prefix::None => 0,
            Prefix::CB => 0xCB,
            Prefix::DD => 0xDD,
            Prefix::ED => 0xED,
            Prefix::FD => 0xFD,
        }
    }
    pub fn verif_set_active_prefix(&mut self, byte: u8) {
        self.active_prefix = Prefix::from_byte(byte);
    }
    pub fn verif_im(&self) -> u8 {
        match self.int_mode {
            IntMode::Im0 => 0,
            IntMode::Im1 => 1,
            IntMode::Im2 => 2,
        }
    }
}
