//! Verification module spliced into a scratch copy of `rustzx-z80` (cfg(any(kani, rustzx_verif))).
#![allow(dead_code, unused_imports, clippy::all)]
pub mod iface;
pub mod reference;
pub mod bus;
pub mod step;
#[cfg(kani)]
mod harness;
#[cfg(kani)]
mod spec_lemmas;
