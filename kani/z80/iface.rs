//! Shared interface between the reference Z80 semantics (`reference.rs`), the Kani
//! step-equivalence harnesses and the native differential/replay tool.
//! Plain `core`-only Rust: compiled natively and by Kani.

/// Architectural Z80 state between two `step`s (one `Z80::emulate` call of the real code).
#[derive(Clone, Copy, PartialEq, Eq, Debug, Default)]
pub struct RefState {
    pub a: u8, pub f: u8, pub b: u8, pub c: u8, pub d: u8, pub e: u8, pub h: u8, pub l: u8,
    pub a_alt: u8, pub f_alt: u8, pub b_alt: u8, pub c_alt: u8,
    pub d_alt: u8, pub e_alt: u8, pub h_alt: u8, pub l_alt: u8,
    pub ixh: u8, pub ixl: u8, pub iyh: u8, pub iyl: u8,
    pub i: u8, pub r: u8,
    pub pc: u16, pub sp: u16,
    /// hidden MEMPTR (WZ) latch
    pub memptr: u16,
    /// hidden Q latch: copy of F if the previous instruction modified flags, otherwise 0
    pub q: u8,
    pub iff1: bool, pub iff2: bool,
    /// interrupt mode 0, 1 or 2
    pub im: u8,
    pub halted: bool,
    /// 0, or 0xDD / 0xFD / 0xED: a prefix byte that has already been fetched by the previous
    /// step (second element of a DD/FD chain) and applies to the opcode fetched by this step
    pub pending_prefix: u8,
    /// interrupts are not sampled at the start of the next step (set by EI, DI and by a step
    /// that ended in the middle of a prefix chain)
    pub int_inhibit: bool,
}

/// What the CPU does on its pins, at the granularity the machine sees it.
pub trait RefBus {
    /// 4 T-state opcode fetch (M1) at `addr`, returns the byte read
    fn m1(&mut self, addr: u16) -> u8;
    /// 3 T-state memory read
    fn mem_read(&mut self, addr: u16) -> u8;
    /// 3 T-state memory write
    fn mem_write(&mut self, addr: u16, value: u8);
    /// `n` single internal T-states, each presenting `addr` on the address bus (no MREQ)
    fn internal(&mut self, addr: u16, n: u8);
    /// `n` T-states that present no address the ULA could react to
    fn idle(&mut self, n: u8);
    /// 4 T-state port read cycle
    fn port_in(&mut self, port: u16) -> u8;
    /// 4 T-state port write cycle
    fn port_out(&mut self, port: u16, value: u8);
    /// data-bus byte supplied by the interrupting device during INT acknowledge
    fn int_ack(&mut self) -> u8;
    /// level of the INT line (constant during one step)
    fn int_line(&mut self) -> bool;
    /// level of the NMI line (constant during one step)
    fn nmi_line(&mut self) -> bool;
    /// HALT pin driven to `level` (called whenever the CPU executes HALT or leaves the halt state)
    fn halt_line(&mut self, level: bool);
    /// RETI (ED 4D) executed
    fn reti(&mut self);
    /// the step is complete; `pc` is the address of the next byte the CPU will fetch
    fn step_end(&mut self, pc: u16);
}
