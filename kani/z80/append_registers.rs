
// ---- appended by /verif/kani/inject.py (scratch copy only, add-only) ----
#[cfg(any(kani, rustzx_verif))]
#[derive(Clone, Copy, PartialEq, Eq, Debug, Default)]
#[cfg_attr(kani, derive(kani::Arbitrary))]
pub struct VRegs {
    pub pc: u16, pub sp: u16, pub mem_ptr: u16, pub q: u8, pub last_q: u8,
    pub ixh: u8, pub ixl: u8, pub iyh: u8, pub iyl: u8, pub r: u8, pub i: u8,
    pub iff1: bool, pub iff2: bool,
    pub a: u8, pub f: u8, pub b: u8, pub c: u8, pub d: u8, pub e: u8, pub h: u8, pub l: u8,
    pub a_alt: u8, pub f_alt: u8, pub b_alt: u8, pub c_alt: u8,
    pub d_alt: u8, pub e_alt: u8, pub h_alt: u8, pub l_alt: u8,
}
#[cfg(any(kani, rustzx_verif))]
impl Regs {
    pub fn verif_get(&self) -> VRegs {
        VRegs {
            pc: self.pc, sp: self.sp, mem_ptr: self.mem_ptr, q: self.q, last_q: self.last_q,
            ixh: self.ixh, ixl: self.ixl, iyh: self.iyh, iyl: self.iyl, r: self.r, i: self.i,
            iff1: self.iff1, iff2: self.iff2,
            a: self.a, f: self.f, b: self.b, c: self.c, d: self.d, e: self.e, h: self.h, l: self.l,
            a_alt: self.a_alt, f_alt: self.f_alt, b_alt: self.b_alt, c_alt: self.c_alt,
            d_alt: self.d_alt, e_alt: self.e_alt, h_alt: self.h_alt, l_alt: self.l_alt,
        }
    }
    pub fn verif_set(&mut self, v: &VRegs) {
        self.pc = v.pc; self.sp = v.sp; self.mem_ptr = v.mem_ptr; self.q = v.q; self.last_q = v.last_q;
        self.ixh = v.ixh; self.ixl = v.ixl; self.iyh = v.iyh; self.iyl = v.iyl; self.r = v.r; self.i = v.i;
        self.iff1 = v.iff1; self.iff2 = v.iff2;
        self.a = v.a; self.f = v.f; self.b = v.b; self.c = v.c; self.d = v.d; self.e = v.e;
        self.h = v.h; self.l = v.l;
        self.a_alt = v.a_alt; self.f_alt = v.f_alt; self.b_alt = v.b_alt; self.c_alt = v.c_alt;
        self.d_alt = v.d_alt; self.e_alt = v.e_alt; self.h_alt = v.h_alt; self.l_alt = v.l_alt;
    }
}
