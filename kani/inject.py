#!/usr/bin/env python3
"""Add-only overlay for a *scratch copy* of /repo (never /repo itself).

  inject.py <scratch_dir> [--repo /repo]

1. rsync /repo's current working tree (no target/, no .git) to <scratch_dir>
2. append cfg-guarded accessor blocks / `mod verif` lines to the files listed in APPENDS
3. insert cfg_attr(kani, ...) attribute lines above anchors listed in ATTRS
4. bump proc-macro2 in the scratch Cargo.lock (pinned 1.0.53 does not build on Kani's nightly;
   build-script dependency only)

Everything injected is guarded by `cfg(any(kani, rustzx_verif))`; no existing line is
changed or removed.  A missing anchor makes the script exit 2 ("lost anchor" = undecided,
never a violation).
"""
import os
import re
import subprocess
import sys

VERIF = os.path.dirname(os.path.dirname(os.path.abspath(__file__)))

# file (relative to repo root) -> list of snippets (file under VERIF, or literal text if it starts with '\n')
APPENDS = {
    "rustzx-z80/src/registers.rs": ["kani/z80/append_registers.rs"],
    "rustzx-z80/src/cpu.rs": ["kani/z80/append_cpu.rs"],
    "rustzx-z80/src/lib.rs": [
        "\n#[cfg(any(kani, rustzx_verif))]\npub use registers::VRegs;\n"
        "#[cfg(any(kani, rustzx_verif))]\n#[path = \"@VERIF@/kani/z80/mod.rs\"]\npub mod verif;\n"
    ],
}

# new files created in the scratch copy: path -> text
NEW_FILES = {
    "rustzx-z80/examples/verif_z80diff.rs": "include!(\"@VERIF@/replay/z80diff.rs\");\n",
}

# (file, anchor regex that must match exactly one line, text inserted as new line(s) above it)
ATTRS = []


def load_extra():
    """Other crates register their overlay in kani/<crate>/overlay.py (APPENDS/NEW_FILES/ATTRS)."""
    import importlib.util
    base = os.path.join(VERIF, "kani")
    for d in sorted(os.listdir(base)):
        p = os.path.join(base, d, "overlay.py")
        if os.path.isfile(p):
            spec = importlib.util.spec_from_file_location("overlay_" + d, p)
            m = importlib.util.module_from_spec(spec)
            spec.loader.exec_module(m)
            for k, v in getattr(m, "APPENDS", {}).items():
                APPENDS.setdefault(k, []).extend(v)
            NEW_FILES.update(getattr(m, "NEW_FILES", {}))
            ATTRS.extend(getattr(m, "ATTRS", []))


def die(msg):
    print("inject: " + msg, file=sys.stderr)
    sys.exit(2)


def main():
    if len(sys.argv) < 2:
        die("usage: inject.py <scratch_dir> [--repo DIR] [--no-lock-bump]")
    scratch = os.path.abspath(sys.argv[1])
    repo = "/repo"
    if "--repo" in sys.argv:
        repo = sys.argv[sys.argv.index("--repo") + 1]
    for bad in ("/repo", VERIF):
        if scratch == bad or scratch.startswith(bad + "/"):
            die("scratch dir must be outside /repo and /verif")
    load_extra()
    os.makedirs(scratch, exist_ok=True)
    subprocess.check_call([
        "rsync", "-a", "--delete", "--exclude", "/target", "--exclude", ".git",
        "--exclude", "/screenshots", repo.rstrip("/") + "/", scratch + "/"])
    sub = lambda t: t.replace("@VERIF@", VERIF)
    for rel, snippets in APPENDS.items():
        path = os.path.join(scratch, rel)
        if not os.path.isfile(path):
            die("lost anchor: file %s is gone" % rel)
        with open(path, "a") as f:
            for s in snippets:
                if s.startswith("\n"):
                    f.write(sub(s))
                else:
                    with open(os.path.join(VERIF, s)) as g:
                        f.write(sub(g.read()))
    for rel, text in NEW_FILES.items():
        path = os.path.join(scratch, rel)
        os.makedirs(os.path.dirname(path), exist_ok=True)
        with open(path, "w") as f:
            f.write(sub(text))
    for rel, anchor, text in ATTRS:
        path = os.path.join(scratch, rel)
        if not os.path.isfile(path):
            die("lost anchor: file %s is gone" % rel)
        lines = open(path).read().split("\n")
        hits = [i for i, l in enumerate(lines) if re.search(anchor, l)]
        if len(hits) != 1:
            die("lost anchor: %r matches %d lines in %s" % (anchor, len(hits), rel))
        i = hits[0]
        indent = re.match(r"\s*", lines[i]).group(0)
        # attributes go above any existing attribute/doc lines of the item
        while i > 0 and re.match(r"\s*(#\[|///)", lines[i - 1]):
            i -= 1
        lines[i:i] = [indent + t for t in sub(text).split("\n")]
        open(path, "w").write("\n".join(lines))
    if "--no-lock-bump" not in sys.argv:
        env = dict(os.environ, CARGO_NET_OFFLINE="true")
        r = subprocess.run(
            ["cargo", "update", "-p", "proc-macro2", "--precise", "1.0.106", "--offline"],
            cwd=scratch, env=env, capture_output=True, text=True)
        if r.returncode != 0:
            print("inject: proc-macro2 bump failed (continuing):\n" + r.stderr[-400:], file=sys.stderr)
    print(scratch)


if __name__ == "__main__":
    main()
