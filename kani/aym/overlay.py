APPENDS = {
    "aym/src/backends/precise.rs": [
        "\n#[cfg(kani)]\n#[path = \"@VERIF@/kani/aym/harness.rs\"]\nmod verif;\n"
    ],
}
