//! K-aym - C18: the digital core of the AY generator (child module of backends::precise, so the
//! private generator functions are reachable).  Floats appear only in table checks.
#![allow(dead_code, unused_imports)]
use super::*;
use crate::{AyMode, AymBackend, SoundChip};

fn sqrt_stub(x: f64) -> f64 {
    if x == 0.0 {
        0.0
    } else if x == 1.0 {
        1.0
    } else if x == 0.5 {
        0.7071067811865476
    } else {
        let r: f64 = kani::any();
        kani::assume(r >= 0.0);
        r
    }
}

fn chip() -> AymPrecise {
    AymPrecise::new(false, 1773400.0, 44100)
}

/// tone: 12-bit period, 0 acts as 1; the output flips every TP generator ticks
#[kani::proof]
#[kani::unwind(4)]
fn tone_period_and_tick() {
    let mut ay = chip();
    let ch: usize = kani::any();
    kani::assume(ch < 3);
    let p: u16 = kani::any();
    ay.set_tone(ch, p);
    let tp = if p & 0x0FFF == 0 { 1 } else { p & 0x0FFF };
    kani::assert(ay.channels[ch].tone_period == tp, "C18: tone period = 12 bits, 0 acts as 1");
    // one generator tick from any counter/level state
    let c: u16 = kani::any();
    let t: usize = kani::any();
    kani::assume(t < 2);
    ay.channels[ch].tone_counter = c;
    ay.channels[ch].tone = t;
    kani::assume(c < 0xFFFF);
    let out = ay.update_tone(ch);
    if c + 1 >= tp {
        kani::assert(ay.channels[ch].tone_counter == 0 && ay.channels[ch].tone == t ^ 1 && out == t ^ 1,
            "C18: tone flips when the counter reaches the period");
    } else {
        kani::assert(ay.channels[ch].tone_counter == c + 1 && ay.channels[ch].tone == t && out == t,
            "C18: tone holds while counting");
    }
    // counter < period is an invariant once established, so flips are exactly TP ticks apart
    if c < tp {
        kani::assert(ay.channels[ch].tone_counter < tp, "C18: counter stays below the period");
    }
    kani::cover!(c + 1 >= tp);
}

/// noise: 5-bit period, 0 acts as 1; 17-bit LFSR (taps 0 and 3) shifts every 2*NP ticks
#[kani::proof]
fn noise_period_and_tick() {
    let mut ay = chip();
    let p: u16 = kani::any();
    ay.set_noise(p);
    let np = if p & 0x1F == 0 { 1 } else { p & 0x1F };
    kani::assert(ay.noise_period == np, "C18: noise period = 5 bits, 0 acts as 1");
    let c: u16 = kani::any();
    let n: usize = kani::any();
    kani::assume(n < (1 << 17) && c < 0xFFFF);
    ay.noise_counter = c;
    ay.noise = n;
    let out = ay.update_noise();
    if c + 1 >= 2 * np {
        let bit = (n ^ (n >> 3)) & 1;
        kani::assert(ay.noise_counter == 0 && ay.noise == (n >> 1) | (bit << 16), "C18: LFSR step: bit0^bit3 enters at bit 16");
    } else {
        kani::assert(ay.noise_counter == c + 1 && ay.noise == n, "C18: noise holds while counting");
    }
    kani::assert(ay.noise < (1 << 17) && out == ay.noise & 1, "C18: 17-bit LFSR, output is bit 0");
}

/// documented envelope level (0..31, 5-bit steps) `n` envelope ticks after the shape was written
fn envelope_spec(shape: usize, n: usize) -> usize {
    let p = n / 32;
    let k = n % 32;
    let down_first = shape < 4 || (shape >= 8 && shape < 12);
    if p == 0 {
        return if down_first { 31 - k } else { k };
    }
    match shape {
        0..=7 | 9 | 15 => 0,                                   // \___  /___
        11 | 13 => 31,                                         // \~~~  /~~~
        8 => 31 - k,                                           // \\\\
        12 => k,                                               // ////
        10 => if p % 2 == 1 { k } else { 31 - k },             // \/\/
        _ => if p % 2 == 1 { 31 - k } else { k },              // /\/\   (14)
    }
}

/// envelope: all 16 shapes; the generator's state space (shape, segment, level) is finite and every
/// trajectory is periodic with period <= 64 after the first 32 ticks, so 32 + 2*64 ticks visit every
/// reachable transition: complete for all n by periodicity of both sides
#[kani::proof]
#[kani::unwind(170)]
fn envelope_shapes() {
    let mut ay = chip();
    let shape: usize = kani::any();
    kani::assume(shape < 16);
    ay.set_envelope(1); // one envelope tick per generator tick
    ay.set_envelope_shape(shape);
    kani::assert(ay.envelope == envelope_spec(shape, 0), "C18: envelope start level");
    let mut n = 1;
    while n <= 160 {
        let out = ay.update_envelope();
        kani::assert(out == envelope_spec(shape, n), "C18: envelope follows the documented pattern of its shape");
        kani::assert(out < 32, "C18: envelope level is 5 bits");
        n += 1;
    }
}

/// envelope period: the level steps every EP ticks (16-bit, 0 acts as 1)
#[kani::proof]
fn envelope_period() {
    let mut ay = chip();
    let p: u16 = kani::any();
    ay.set_envelope(p);
    let ep = if p == 0 { 1 } else { p };
    kani::assert(ay.envelope_period == ep, "C18: envelope period 16 bits, 0 acts as 1");
    let shape: usize = kani::any();
    kani::assume(shape < 16);
    ay.set_envelope_shape(shape);
    kani::assert(ay.envelope_counter == 0, "C18: writing the shape restarts the envelope");
    let c: u16 = kani::any();
    kani::assume(c < 0xFFFF);
    ay.envelope_counter = c;
    let before = ay.envelope;
    let out = ay.update_envelope();
    if c + 1 >= ep {
        kani::assert(ay.envelope_counter == 0, "C18: envelope steps when the counter reaches EP");
    } else {
        kani::assert(ay.envelope_counter == c + 1 && out == before, "C18: envelope holds while counting");
    }
}

/// register decode R0..R13 and the mixer gating / level selection
#[kani::proof]
#[kani::unwind(16)]
#[kani::stub(libm::sqrt, sqrt_stub)]
fn register_decode_and_mixer() {
    let mut ay = <AymPrecise as AymBackend>::new(SoundChip::AY, AyMode::Mono, 1773400, 44100);
    let regs: [u8; 14] = kani::any();
    ay.registers = regs;
    // representation invariant: the generator's per-channel settings are the decode of the register file
    let mut i = 0;
    while i < 3 {
        ay.channels[i].tone_off_bit = ((regs[7] >> i) & 1) as usize;
        ay.channels[i].noise_off_bit = ((regs[7] >> (i + 3)) & 1) as usize;
        ay.channels[i].envelope_enabled = regs[8 + i] & 0x10 != 0;
        ay.channels[i].volume = (regs[8 + i] & 0x0F) as usize;
        i += 1;
    }
    let a: u8 = kani::any();
    let v: u8 = kani::any();
    ay.write_register(a, v);
    if a >= 14 {
        kani::assert(ay.registers == regs, "C18: register numbers above 13 are ignored by the generator");
        return;
    }
    let mut r = regs;
    r[a as usize] = v;
    kani::assert(ay.registers == r, "C18: register file updated");
    // ... and is re-established by every register write, whatever the write order
    let mut i = 0;
    while i < 3 {
        kani::assert(ay.channels[i].tone_off_bit == ((r[7] >> i) & 1) as usize
            && ay.channels[i].noise_off_bit == ((r[7] >> (i + 3)) & 1) as usize,
            "C18: mixer bits gate tone and noise per channel (invariant over any write order)");
        kani::assert(ay.channels[i].envelope_enabled == (r[8 + i] & 0x10 != 0)
            && ay.channels[i].volume == (r[8 + i] & 0x0F) as usize,
            "C18: volume / follow-envelope of each channel come from its own amplitude register (invariant over any write order)");
        i += 1;
    }
    let tp = |lo: u8, hi: u8| { let p = (lo as u16) | (((hi & 0x0F) as u16) << 8); if p == 0 { 1 } else { p } };
    match a {
        0 | 1 => kani::assert(ay.channels[0].tone_period == tp(r[0], r[1]), "C18: R0/R1 = tone A period"),
        2 | 3 => kani::assert(ay.channels[1].tone_period == tp(r[2], r[3]), "C18: R2/R3 = tone B period"),
        4 | 5 => kani::assert(ay.channels[2].tone_period == tp(r[4], r[5]), "C18: R4/R5 = tone C period"),
        6 => kani::assert(ay.noise_period == if r[6] & 0x1F == 0 { 1 } else { (r[6] & 0x1F) as u16 }, "C18: R6 = noise period"),
        7 => {
            let mut i = 0;
            while i < 3 {
                kani::assert(ay.channels[i].tone_off_bit == ((r[7] >> i) & 1) as usize, "C18: R7 bits 0-2 gate tone (1 = off)");
                kani::assert(ay.channels[i].noise_off_bit == ((r[7] >> (i + 3)) & 1) as usize, "C18: R7 bits 3-5 gate noise (1 = off)");
                i += 1;
            }
        }
        8 | 9 | 10 => {
            let i = (a - 8) as usize;
            kani::assert(ay.channels[i].volume == (v & 0x0F) as usize, "C18: R8-R10 low 4 bits = volume");
            kani::assert(ay.channels[i].envelope_enabled == (v & 0x10 != 0), "C18: R8-R10 bit 4 = follow envelope");
        }
        11 | 12 => {
            let p = (r[11] as u16) | ((r[12] as u16) << 8);
            kani::assert(ay.envelope_period == if p == 0 { 1 } else { p }, "C18: R11/R12 = envelope period");
        }
        _ => {
            kani::assert(ay.envelope_shape == (v & 0x0F) as usize && ay.envelope_counter == 0 && ay.envelope_segment == 0,
                "C18: R13 = envelope shape, restarts the envelope");
        }
    }
}

/// level index fed to the DAC: (tone|toff)&(noise|noff) * (env ? E : 2*vol+1), always < 32
#[kani::proof]
#[kani::unwind(4)]
fn mixer_level_index() {
    let mut ay = chip();
    let mut i = 0;
    while i < 3 {
        let t: usize = kani::any();
        let toff: usize = kani::any();
        let noff: usize = kani::any();
        let vol: usize = kani::any();
        kani::assume(t < 2 && toff < 2 && noff < 2 && vol < 16);
        ay.channels[i].tone = t;
        ay.channels[i].tone_off_bit = toff;
        ay.channels[i].noise_off_bit = noff;
        ay.channels[i].volume = vol;
        ay.channels[i].envelope_enabled = kani::any();
        ay.channels[i].tone_period = kani::any();
        ay.channels[i].tone_counter = kani::any();
        kani::assume(ay.channels[i].tone_counter < 0xFFFF);
        i += 1;
    }
    let n: usize = kani::any();
    kani::assume(n < (1 << 17));
    ay.noise = n;
    ay.noise_counter = kani::any();
    kani::assume(ay.noise_counter < 0xFFFF);
    ay.noise_period = kani::any();
    kani::assume(ay.noise_period >= 1 && ay.noise_period < 32);
    let e: usize = kani::any();
    let shape: usize = kani::any();
    let seg: usize = kani::any();
    kani::assume(e < 32 && shape < 16 && seg < 2);
    ay.envelope = e;
    ay.envelope_shape = shape;
    ay.envelope_segment = seg;
    ay.envelope_counter = kani::any();
    kani::assume(ay.envelope_counter < 0xFFFF);
    ay.envelope_period = kani::any();
    // the `assert!(out < 32)` inside update_mixer must be unreachable; sums stay finite
    ay.update_mixer();
    kani::assert(ay.envelope < 32 && ay.noise < (1 << 17), "C18: generator invariants preserved by one tick");
    kani::assert(ay.left.is_finite() && ay.right.is_finite() && ay.left >= 0.0 && ay.left <= 3.0,
        "C18: mixed DAC level is finite and within 3 channels x full scale");
}

/// Two chips in the same symbolic state (everything one generator tick reads).
fn same_state_pair() -> (AymPrecise, AymPrecise) {
    // AY and YM differ in the DAC table only (the AY table repeats each level twice)
    let is_ym: bool = kani::any();
    let mut a = AymPrecise::new(is_ym, 1773400.0, 44100);
    let mut b = AymPrecise::new(is_ym, 1773400.0, 44100);
    // distinct concrete pan gains per channel (a chip built directly has all gains 0)
    let pans: [(f64, f64); 3] = [(1.0, 0.0), (0.5, 0.25), (0.0, 0.75)];
    let mut i = 0;
    while i < 3 {
        a.channels[i].pan_left = pans[i].0;
        b.channels[i].pan_left = pans[i].0;
        a.channels[i].pan_right = pans[i].1;
        b.channels[i].pan_right = pans[i].1;
        let t: usize = kani::any();
        let toff: usize = kani::any();
        let noff: usize = kani::any();
        let vol: usize = kani::any();
        kani::assume(t < 2 && toff < 2 && noff < 2 && vol < 16);
        let en: bool = kani::any();
        let tp: u16 = kani::any();
        let tc: u16 = kani::any();
        kani::assume(tc < 0xFFFF);
        a.channels[i].tone = t;
        b.channels[i].tone = t;
        a.channels[i].tone_off_bit = toff;
        b.channels[i].tone_off_bit = toff;
        a.channels[i].noise_off_bit = noff;
        b.channels[i].noise_off_bit = noff;
        a.channels[i].volume = vol;
        b.channels[i].volume = vol;
        a.channels[i].envelope_enabled = en;
        b.channels[i].envelope_enabled = en;
        a.channels[i].tone_period = tp;
        b.channels[i].tone_period = tp;
        a.channels[i].tone_counter = tc;
        b.channels[i].tone_counter = tc;
        i += 1;
    }
    let n: usize = kani::any();
    kani::assume(n < (1 << 17));
    let nc: u16 = kani::any();
    kani::assume(nc < 0xFFFF);
    let np: u16 = kani::any();
    kani::assume(np >= 1 && np < 32);
    a.noise = n;
    b.noise = n;
    a.noise_counter = nc;
    b.noise_counter = nc;
    a.noise_period = np;
    b.noise_period = np;
    let e: usize = kani::any();
    let shape: usize = kani::any();
    let seg: usize = kani::any();
    kani::assume(e < 32 && shape < 16 && seg < 2);
    let ec: u16 = kani::any();
    kani::assume(ec < 0xFFFF);
    let ep: u16 = kani::any();
    a.envelope = e;
    b.envelope = e;
    a.envelope_shape = shape;
    b.envelope_shape = shape;
    a.envelope_segment = seg;
    b.envelope_segment = seg;
    a.envelope_counter = ec;
    b.envelope_counter = ec;
    a.envelope_period = ep;
    b.envelope_period = ep;
    (a, b)
}

/// C18: mixer bits gate tone and noise per channel, the amplitude is the 4-bit volume (level
/// 2*vol+1) or the envelope step when bit 4 is set, and each channel goes to the two sides with
/// its pan gains: update_mixer's sums are exactly the DAC levels of
/// (tone|tone_off) & (noise|noise_off) * level, combined from the component generators whose
/// ticks are the subject of the other harnesses (run here on a twin chip in the same state).
#[kani::proof]
#[kani::unwind(4)]
fn mixer_gating_and_levels() {
    let (mut ay, mut twin) = same_state_pair();
    let noise = twin.update_noise();
    let env = twin.update_envelope();
    let mut exp_l = 0.0f64;
    let mut exp_r = 0.0f64;
    let mut i = 0;
    while i < 3 {
        let tone = twin.update_tone(i);
        let gate = if (tone == 1 || twin.channels[i].tone_off_bit == 1) && (noise == 1 || twin.channels[i].noise_off_bit == 1) { 1 } else { 0 };
        let level = if twin.channels[i].envelope_enabled { env } else { twin.channels[i].volume * 2 + 1 };
        let out = gate * level;
        exp_l += twin.dac_table[out] * twin.channels[i].pan_left;
        exp_r += twin.dac_table[out] * twin.channels[i].pan_right;
        i += 1;
    }
    kani::assert(noise < 2 && env < 32, "C18: component outputs in range");
    // whatever the previous tick left in the accumulators
    ay.left = 5.0;
    ay.right = 7.0;
    ay.update_mixer();
    kani::assert(ay.left == exp_l && ay.right == exp_r, "C18: mixer gating / volume-or-envelope level / panning of the three channels");
    kani::assert(ay.noise == twin.noise && ay.envelope == twin.envelope && ay.envelope_segment == twin.envelope_segment
        && ay.noise_counter == twin.noise_counter && ay.envelope_counter == twin.envelope_counter,
        "C18: update_mixer ticks noise and envelope exactly once");
    let mut j = 0;
    while j < 3 {
        kani::assert(ay.channels[j].tone == twin.channels[j].tone && ay.channels[j].tone_counter == twin.channels[j].tone_counter,
            "C18: update_mixer ticks every tone generator exactly once");
        j += 1;
    }
    kani::cover!(ay.left > 0.0);
}

/// C18: writing the envelope shape register restarts the envelope: counter and segment are reset
/// and the level starts at the top for the decaying shapes (0-3, 8-11) and at 0 for the attacking
/// ones (4-7, 12-15), whatever the generator was doing before.
#[kani::proof]
#[kani::unwind(4)]
fn envelope_restart() {
    let (mut ay, _) = same_state_pair();
    let s: usize = kani::any();
    ay.set_envelope_shape(s);
    let shape = s & 0x0F;
    kani::assert(ay.envelope_shape == shape, "C18: 4-bit envelope shape code");
    kani::assert(ay.envelope_counter == 0 && ay.envelope_segment == 0, "C18: envelope restarts from its first segment");
    let decays = shape < 4 || (shape >= 8 && shape < 12);
    kani::assert(ay.envelope == if decays { 31 } else { 0 }, "C18: envelope start level of the shape");
    kani::cover!(decays);
    kani::cover!(!decays);
}

/// amplitude grows strictly with the 4-bit volume; envelope levels are non-decreasing in the 5-bit step
#[kani::proof]
#[kani::unwind(34)]
fn dac_tables_monotone() {
    let mut v = 0;
    while v < 15 {
        kani::assert(AY_DAC_TABLE[2 * v + 1] < AY_DAC_TABLE[2 * (v + 1) + 1], "C18: AY amplitude strictly increasing in volume");
        kani::assert(YM_DAC_TABLE[2 * v + 1] < YM_DAC_TABLE[2 * (v + 1) + 1], "C18: YM amplitude strictly increasing in volume");
        v += 1;
    }
    let mut i = 0;
    while i < 31 {
        kani::assert(AY_DAC_TABLE[i] <= AY_DAC_TABLE[i + 1] && YM_DAC_TABLE[i] <= YM_DAC_TABLE[i + 1], "C18: DAC table non-decreasing");
        kani::assert(AY_DAC_TABLE[i] >= 0.0 && YM_DAC_TABLE[i + 1] <= 1.0, "C18: DAC table within [0,1]");
        i += 1;
    }
}

/// stereo modes: the documented Both/Left/Right placement (equal-power pan 0 / 0.5 / 1)
#[kani::proof]
#[kani::unwind(4)]
#[kani::stub(libm::sqrt, sqrt_stub)]
fn stereo_modes() {
    let m: u8 = kani::any();
    kani::assume(m < 7);
    // (A, B, C) placement: 0 = left, 1 = both, 2 = right
    let (mode, exp) = match m {
        0 => (AyMode::Mono, [1, 1, 1]),
        1 => (AyMode::ABC, [0, 1, 2]),
        2 => (AyMode::ACB, [0, 2, 1]),
        3 => (AyMode::BAC, [1, 0, 2]),
        4 => (AyMode::BCA, [2, 0, 1]),
        5 => (AyMode::CAB, [1, 2, 0]),
        _ => (AyMode::CBA, [2, 1, 0]),
    };
    let ay = <AymPrecise as AymBackend>::new(SoundChip::AY, mode, 1773400, 44100);
    let mut i = 0;
    while i < 3 {
        let (l, r) = (ay.channels[i].pan_left, ay.channels[i].pan_right);
        match exp[i] {
            0 => kani::assert(l == 1.0 && r == 0.0, "C18: channel panned left"),
            2 => kani::assert(l == 0.0 && r == 1.0, "C18: channel panned right"),
            _ => kani::assert(l == r && l > 0.7 && l < 0.71, "C18: channel on both sides at equal power"),
        }
        i += 1;
    }
}

/// Resampler phase: `x` (the fractional position between two generator ticks) must stay in [0, 1)
/// for every supported sample rate (8-384 kHz): the interpolation polynomial is evaluated at x, so
/// a phase that escapes the unit interval makes the output grow without bound.
/// One `process()` call from the freshly constructed chip (a later call starts from the same
/// invariant `0 <= x < 1`, which is what the second assertion re-establishes).
#[kani::proof]
#[kani::unwind(10)]
fn resampler_phase_bounded() {
    let sr: usize = kani::any();
    kani::assume(sr >= 8000 && sr <= 384000);
    let mut ay = AymPrecise::new(false, 1773400.0, sr);
    let x0: f64 = kani::any();
    kani::assume(x0 >= 0.0 && x0 < 1.0);
    ay.x = x0;
    ay.process();
    kani::assert(ay.x >= 0.0 && ay.x < 1.0, "C18: resampler phase stays inside [0,1) at every supported sample rate");
    kani::assert(ay.left.is_finite() && ay.right.is_finite(), "C18: one output sample is finite");
}
