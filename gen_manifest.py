#!/usr/bin/env python3
"""Regenerates MANIFEST.json from props.py (so claims and registry cannot drift)."""
import json
import os
import sys
sys.path.insert(0, os.path.dirname(os.path.abspath(__file__)))
import props as P

ALL = ["C%02d" % i for i in range(1, 21)]
checks = []
for pid in ALL:
    if pid not in P.PROPS:
        continue
    s = P.PROPS[pid]
    checks.append(dict(
        property_id=pid,
        quick_cmd="./check %s --tier quick" % pid,
        thorough_cmd="./check %s --tier thorough" % pid,
        evidence_file="/verif/evidence/%s.json" % pid,
        replay_cmd_template="./check replay {path}",
        engine=s.get("engine", "verus+kani"),
        level_claimed=dict(category=s.get("category", "proof"), text=s["claim"], design_ref="DESIGN.md §4.%s" % pid),
        level_note=s["note"],
        technique=s.get("technique", "contract-based deductive verification (Verus contracts on mechanically extracted real functions; Kani/CBMC contracts and loop-free full-domain harnesses on the real crates)"),
    ))
na = [dict(property_id=p, reason=r) for p, r in sorted(P.NOT_APPLICABLE.items())]
m = dict(
    version=1,
    setup_cmd="python3 -c \"import sys; sys.exit(0)\"",
    hooks=dict(
        guard="kani / rustzx_verif (cfg), injected by kani/inject.py into a scratch copy only; no guarded code is committed in /repo",
        enable="python3 kani/inject.py <scratch> && (cd <scratch> && cargo kani ... | RUSTFLAGS='--cfg rustzx_verif' cargo build ...)",
        baseline_off_cmd="cd /repo && cargo nextest run --workspace --no-fail-fast --test-threads 8 --offline || cargo test --workspace --no-fail-fast --offline",
        source_commits=P.SOURCE_COMMITS,
        add_only=True),
    engines=[
        dict(name="verus-extract", path="vx/", serves_properties=sorted(p for p in P.PROPS if P.PROPS[p].get("verus")),
             kind_free_text="mechanical extraction of real functions into single-file Verus units with spliced contracts; Z3"),
        dict(name="kani-overlay", path="kani/", serves_properties=sorted(p for p in P.PROPS if P.PROPS[p].get("kani")),
             kind_free_text="Kani function contracts / loop-free full-domain harnesses on the real crates via add-only overlay; CBMC"),
    ],
    checks=checks,
    not_applicable=na,
    notes="Exit 2 of a check = undecided for tool reasons (lost anchor / unsupported construct / resource limit); never a VIOLATION line. See DESIGN.md.",
)
json.dump(m, open(os.path.join(os.path.dirname(os.path.abspath(__file__)), "MANIFEST.json"), "w"), indent=1)
print("MANIFEST.json: %d checks, %d not_applicable" % (len(checks), len(na)))
