"""Registry: which units / harnesses / scans decide which property."""
import os
import re

VERIF = os.path.dirname(os.path.abspath(__file__))

TRUSTED_BASE = [
    "rustc, Verus 0.2026.09.13 + Z3, vstd; Kani 0.68 + CBMC 6.11",
    "the extractor's closed rule list (vx/extract.py RULES): R-attr, R-cfg(feature set full), R-vis, R-arraypat, R-shim, R-sig",
    "spec functions written from the property statements (vx/units/*.rs, kani/*/)",
    "macro expansions of lazy_static / bitflags / enum_dispatch",
]


def grep_writers(repo, field, allowed, files_glob="rustzx-core/src"):
    """frame obligation: the set of functions assigning `self.<field>` must be `allowed`"""
    import glob
    sys_path = os.path.join(VERIF, "vx")
    import sys
    if sys_path not in sys.path:
        sys.path.insert(0, sys_path)
    from rustlex import mask
    found = set()
    for path in glob.glob(os.path.join(repo, files_glob, "**", "*.rs"), recursive=True):
        src = open(path).read()
        msk = mask(src)
        for m in re.finditer(r"\b" + re.escape(field) + r"\s*(?:[-+*/|&^]|<<|>>)?=(?!=)", msk):
            pre = msk[max(0, m.start() - 40):m.start()]
            if not re.search(r"(self|controller|out)\s*\.\s*$", pre) and not re.search(r"\.\s*$", pre):
                # struct literal field init `field: value` does not match (uses ':'), plain local var
                continue
            # enclosing fn
            fns = [x for x in re.finditer(r"\bfn\s+(\w+)", msk[:m.start()])]
            fn = fns[-1].group(1) if fns else "?"
            found.add("%s::%s" % (os.path.relpath(path, repo), fn))
    return found


def scan_time_writers(repo):
    allowed = {
        "rustzx-core/src/zx/controller.rs::wait_internal",
        "rustzx-core/src/zx/controller.rs::new_frame",
        "rustzx-core/src/zx/controller.rs::reset_frame_counter",
        "rustzx-core/src/emulator/snapshot/szx.rs::process_z80r_block",
    }
    found = grep_writers(repo, "frame_clocks", allowed) | grep_writers(repo, "passed_frames", allowed)
    extra = found - allowed
    ob = "scan::frame(frame_clocks,passed_frames) writers == {wait_internal,new_frame,reset_frame_counter,szx Z80R loader}"
    if extra:
        return dict(status="fail", obligation=ob,
                    detail="new writer(s) of the emulated-time fields outside the contracted set: %s" % sorted(extra))
    if not found:
        return dict(status="undecided", obligation=ob, detail="no writer found at all (lost anchor)")
    return dict(status="ok", obligation=ob, detail="")


CORE_ASSUME = [
    "Kani harnesses run on an add-only overlay of a scratch copy of /repo (kani/inject.py); proc-macro2 bumped to 1.0.106 in the scratch Cargo.lock (build-script dependency only)",
]

K_MACHINE = dict(name="K-core::machine", package="rustzx-core", features="full",
                 harnesses=["specs_48k", "specs_128k", "bank_is_contended"],
                 functions={"specs_48k": ["ZXMachine::specs / SPECS_48K (ZXSpecsBuilder::build)"],
                            "specs_128k": ["ZXMachine::specs / SPECS_128K (ZXSpecsBuilder::build)"],
                            "bank_is_contended": ["ZXMachine::bank_is_contended"]},
                 assumptions=CORE_ASSUME)

SOURCE_COMMITS = []

NOT_APPLICABLE = {
    "C16": "relational 2-run / all-host-schedules property; no unary function contract within Verus/Kani reach expresses or decides it (DESIGN.md §5)",
}
# properties whose units are not built yet are listed as not claimed until their check exists
for _p in ["C%02d" % i for i in range(1, 21)]:
    NOT_APPLICABLE.setdefault(_p, "check not built yet in this round (planned, see DESIGN.md §4)")

PROPS = {
    "C04": dict(
        level="proof",
        claim="Deductive proof (Verus, unbounded in T, address, port, paging state) that contention_clocks equals the statement's delay function and that every bus-wait method and both port-cycle halves advance emulated time by exactly the contended/uncontended amount; Kani proves the machine constants and the contended-bank table on the real tables.",
        note="Assumes: extraction rules; tape/mixer/screen/border calls touch only their own struct; read_io's call structure (outside the Verus subset) is covered by Kani under C07; composition over an instruction's bus-cycle list is C03's.",
        verus=["ctl"],
        kani=[K_MACHINE],
        explanation="ULA contention: contention_clocks == ula_delay for all T; every wait_* advances total "
                    "time by (contended ? ula_delay : 0) + clk; port cycles realise the four patterns.",
        not_mechanised=["composition 'instruction time = uncontended time + sum of delays' rests on C03's bus-cycle list (each cycle maps to one contracted call)"],
    ),
    "C05": dict(
        level="proof",
        claim="Deductive proof that frame length is 69888/70908 (Kani on the real spec tables), that wait_internal conserves total time = frames*F + offset with the overrun carried (Verus, all clocks), that INT is high exactly for in-frame clocks 0..31, plus a syntactic frame obligation that nothing else writes the time fields.",
        note="Assumes: emulate_frames reaches time only through the contracted bus methods; 'exactly one interrupt per frame' is a stated corollary with C02, not mechanised.",
        verus=["ctl"],
        kani=[K_MACHINE],
        scans=[scan_time_writers],
        explanation="frame length constants (Kani on the real tables), time conservation "
                    "total' == total + clk for wait_internal (Verus), INT window == in-frame clocks 0..31",
        not_mechanised=["'interrupted exactly once per frame' (corollary with C02, whole-program)",
                        "emulate_frames driver loop: only reaches time through the contracted bus methods (parametricity assumed)"],
    ),
}

for _p in PROPS:
    NOT_APPLICABLE.pop(_p, None)
