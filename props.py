"""Registry: which units / harnesses / scans decide which property."""
import os
import re

VERIF = os.path.dirname(os.path.abspath(__file__))

TRUSTED_BASE = [
    "rustc, Verus 0.2026.09.13 + Z3, vstd; Kani 0.68 + CBMC 6.11",
    "the extractor's closed rule list (vx/extract.py RULES): R-attr, R-cfg(feature set full), R-vis, R-arraypat, R-shim, R-sig",
    "spec functions written from the property statements (vx/units/*.rs, kani/*/)",
    "macro expansions of lazy_static / bitflags / enum_dispatch",
]


def grep_writers(repo, field, allowed, files_glob="rustzx-core/src"):
    """frame obligation: the set of functions assigning `self.<field>` must be `allowed`"""
    import glob
    sys_path = os.path.join(VERIF, "vx")
    import sys
    if sys_path not in sys.path:
        sys.path.insert(0, sys_path)
    from rustlex import mask
    found = set()
    for path in glob.glob(os.path.join(repo, files_glob, "**", "*.rs"), recursive=True):
        src = open(path).read()
        msk = mask(src)
        for m in re.finditer(r"\b" + re.escape(field) + r"\s*(?:[-+*/|&^]|<<|>>)?=(?!=)", msk):
            pre = msk[max(0, m.start() - 40):m.start()]
            if not re.search(r"(self|controller|out)\s*\.\s*$", pre) and not re.search(r"\.\s*$", pre):
                # struct literal field init `field: value` does not match (uses ':'), plain local var
                continue
            # enclosing fn
            fns = [x for x in re.finditer(r"\bfn\s+(\w+)", msk[:m.start()])]
            fn = fns[-1].group(1) if fns else "?"
            found.add("%s::%s" % (os.path.relpath(path, repo), fn))
    return found


def scan_time_writers(repo):
    allowed = {
        "rustzx-core/src/zx/controller.rs::wait_internal",
        "rustzx-core/src/zx/controller.rs::new_frame",
        "rustzx-core/src/zx/controller.rs::reset_frame_counter",
        "rustzx-core/src/emulator/snapshot/szx.rs::process_z80r_block",
    }
    found = grep_writers(repo, "frame_clocks", allowed) | grep_writers(repo, "passed_frames", allowed)
    extra = found - allowed
    ob = "scan::frame(frame_clocks,passed_frames) writers == {wait_internal,new_frame,reset_frame_counter,szx Z80R loader}"
    if extra:
        return dict(status="fail", obligation=ob,
                    detail="new writer(s) of the emulated-time fields outside the contracted set: %s" % sorted(extra))
    if not found:
        return dict(status="undecided", obligation=ob, detail="no writer found at all (lost anchor)")
    return dict(status="ok", obligation=ob, detail="")


def scan_callers(repo, method, allowed, what):
    """frame obligation: `.method(` is called only from the functions in `allowed`"""
    import glob, sys
    sys_path = os.path.join(VERIF, "vx")
    if sys_path not in sys.path:
        sys.path.insert(0, sys_path)
    from rustlex import mask
    found = set()
    for path in glob.glob(os.path.join(repo, "rustzx-core/src", "**", "*.rs"), recursive=True):
        src = open(path).read()
        msk = mask(src)
        for m in re.finditer(r"\.\s*" + re.escape(method) + r"\s*\(", msk):
            fns = [x for x in re.finditer(r"\bfn\s+(\w+)", msk[:m.start()])]
            fn = fns[-1].group(1) if fns else "?"
            found.add("%s::%s" % (os.path.relpath(path, repo), fn))
    ob = "scan::callers(%s) within %s" % (method, sorted(allowed))
    extra = found - set(allowed)
    if extra:
        return dict(status="fail", obligation=ob, detail="%s: new caller(s) %s" % (what, sorted(extra)))
    if not found:
        return dict(status="undecided", obligation=ob, detail="no caller found (lost anchor)")
    return dict(status="ok", obligation=ob, detail="")


def scan_ram_writers_refresh(repo):
    """C08 frame obligation: RAM may be written behind the bus only by functions that afterwards
    re-establish the screen shadow (refresh_memory_dependent_devices), and the refresh is not
    conditional on anything the write is not conditional on: the block holding the refresh call
    encloses (or is) the block holding the write (syntactic post-dominance; early exits through
    `?`/`return Err` are the loaders' error paths and are excluded)"""
    import glob, sys
    sys_path = os.path.join(VERIF, "vx")
    if sys_path not in sys.path:
        sys.path.insert(0, sys_path)
    from rustlex import mask, match_close
    ob = ("scan::every user of ram_page_data_mut/force_write calls refresh_memory_dependent_devices afterwards, "
          "in a block enclosing the write")

    def blocks(msk, b, pos):
        """open-brace positions of the blocks enclosing `pos` inside the body starting at `b`"""
        st = []
        for i in range(b, pos):
            ch = msk[i]
            if ch == "{":
                st.append(i)
            elif ch == "}":
                st.pop()
        return st

    def refreshed_after(msk, b, e, pos):
        """is there a refresh call after `pos` whose enclosing blocks are a prefix of those of `pos`"""
        here = blocks(msk, b, pos)
        any_call = False
        for r in re.finditer(r"\brefresh_memory_dependent_devices\s*\(", msk[pos:e]):
            any_call = True
            rb = blocks(msk, b, pos + r.start())
            if rb == here[:len(rb)]:
                return True, True
        return False, any_call

    bad, seen = [], 0
    for path in glob.glob(os.path.join(repo, "rustzx-core/src", "**", "*.rs"), recursive=True):
        if path.endswith("zx/memory.rs"):
            continue
        src = open(path).read()
        msk = mask(src)
        for m in re.finditer(r"\.\s*(ram_page_data_mut|force_write)\s*\(", msk):
            seen += 1
            fns = [x for x in re.finditer(r"\bfn\s+(\w+)", msk[:m.start()])]
            if not fns:
                continue
            f = fns[-1]
            name = f.group(1)
            b = msk.find("{", f.end())
            e = match_close(msk, b)
            ok, any_call = refreshed_after(msk, b, e, m.end())
            if ok:
                continue
            if any_call:
                bad.append("%s::%s (the refresh is conditional / in a block that does not enclose the write)"
                           % (os.path.relpath(path, repo), name))
                continue
            # helper functions whose every caller refreshes are accepted one level up
            callers_ok = True
            ncall = 0
            for c in re.finditer(r"\b" + re.escape(name) + r"\s*\(", msk):
                if c.start() == f.start(1):
                    continue
                ncall += 1
                cf = [x for x in re.finditer(r"\bfn\s+(\w+)", msk[:c.start()])][-1]
                cb = msk.find("{", cf.end())
                ce = match_close(msk, cb)
                if not refreshed_after(msk, cb, ce, c.end())[0]:
                    callers_ok = False
            if not (ncall and callers_ok):
                bad.append("%s::%s" % (os.path.relpath(path, repo), name))
    if seen == 0:
        return dict(status="undecided", obligation=ob, detail="no RAM writer found (lost anchor)")
    if bad:
        return dict(status="fail", obligation=ob, detail="RAM written behind the bus without (unconditionally) refreshing the screen shadow in: %s" % sorted(set(bad)))
    return dict(status="ok", obligation=ob, detail="")


def scan_asset_reads(repo):
    """C16 frame obligation: emulator code takes bytes from a host asset only through read_exact (whose
    contract - exactly the next bytes, whatever short-read pattern the host chooses - is proved in unit
    hostio). A direct `asset.read(&mut buf)` makes the bytes seen depend on how the host chunks its reads."""
    import glob, sys
    sys_path = os.path.join(VERIF, "vx")
    if sys_path not in sys.path:
        sys.path.insert(0, sys_path)
    from rustlex import mask
    ob = "scan::no direct LoadableAsset::read(&mut buf) call outside host/io.rs (assets are read through read_exact only)"
    bad, unknown, seen_exact = [], [], 0
    for path in glob.glob(os.path.join(repo, "rustzx-core/src", "**", "*.rs"), recursive=True):
        src = open(path).read()
        msk = mask(src)
        seen_exact += len(re.findall(r"\.\s*read_exact\s*\(", msk))
        if path.endswith(os.path.join("host", "io.rs")):
            continue
        for m in re.finditer(r"\.\s*read\s*\(\s*&\s*mut\b", msk):
            fns = [x for x in re.finditer(r"\bfn\s+(\w+)", msk[:m.start()])]
            where = "%s::%s" % (os.path.relpath(path, repo), fns[-1].group(1) if fns else "?")
            # is the byte count thrown away (`..read(&mut b)?;`, `let _ = ..`)? then the short-read case is
            # certainly not handled; a call whose count is used needs a contract of its own (undecided)
            from rustlex import match_close
            close = match_close(msk, msk.index("(", m.start()))
            tail = msk[close + 1:close + 12].replace(" ", "").replace("\n", "")
            ls = msk.rfind("\n", 0, m.start()) + 1
            head = msk[ls:m.start()]
            if tail.startswith("?;") or tail.startswith(";") or re.search(r"\blet\s+_\s*=", head):
                bad.append(where)
            else:
                unknown.append(where)
    if unknown and not bad:
        return dict(status="undecided", obligation=ob, detail="direct read() whose byte count is used - needs a contract: %s" % sorted(set(unknown)))
    if seen_exact == 0:
        return dict(status="undecided", obligation=ob, detail="no read_exact call found at all (lost anchor)")
    if bad:
        return dict(status="fail", obligation=ob, detail="asset bytes taken with a bare read() (result depends on the host's "
                    "read chunking) in: %s" % sorted(set(bad)))
    return dict(status="ok", obligation=ob, detail="")


def scan_refresh_banks(repo):
    """quick syntactic stand-in for K-core::screen (thorough): refresh_memory_dependent_devices feeds
    the screen shadow from RAM bank 0 on the 48K and from banks 5 AND 7 on the 128K"""
    import sys
    sys_path = os.path.join(VERIF, "vx")
    if sys_path not in sys.path:
        sys.path.insert(0, sys_path)
    from rustlex import mask, match_close
    ob = "scan::refresh_memory_dependent_devices updates the shadow from banks {0} (48K) and {5,7} (128K)"
    path = os.path.join(repo, "rustzx-core/src/zx/controller.rs")
    if not os.path.isfile(path):
        return dict(status="undecided", obligation=ob, detail="controller.rs missing")
    src = open(path).read()
    msk = mask(src)
    m = re.search(r"\bfn\s+refresh_memory_dependent_devices\b", msk)
    if not m:
        return dict(status="undecided", obligation=ob, detail="lost anchor: refresh_memory_dependent_devices")
    b = msk.find("{", m.end())
    body = msk[b:match_close(msk, b)]
    missing = []
    for bank in ("0", "5", "7"):
        if not re.search(r"ram_page_data\(\s*%s\s*\)[^;]*?\{[^}]*?screen\s*\.\s*update\(\s*[^,]+,\s*%s\s*," % (bank, bank), body, re.S):
            missing.append(bank)
    if missing:
        # a different code shape is not a refutation: the thorough tier's Kani harness decides
        return dict(status="undecided", obligation=ob,
                    detail="shape `ram_page_data(B) ... screen.update(_, B, _)` not found for bank(s) %s; run --tier thorough (K-core::screen refresh_shadow_*)" % missing)
    return dict(status="ok", obligation=ob, detail="")


def scan_remap_callers(repo):
    return scan_callers(repo, "remap", {"rustzx-core/src/zx/controller.rs::write_7ffd"},
                        "the memory map may only be changed by the paging latch")


def _core_sources(repo, crates=("rustzx-core/src",)):
    import glob, sys
    sys_path = os.path.join(VERIF, "vx")
    if sys_path not in sys.path:
        sys.path.insert(0, sys_path)
    from rustlex import mask
    for c in crates:
        for path in sorted(glob.glob(os.path.join(repo, c, "**", "*.rs"), recursive=True)):
            src = open(path).read()
            yield os.path.relpath(path, repo), src, mask(src)


def _enclosing_fn(msk, pos):
    fns = [x for x in re.finditer(r"\bfn\s+(\w+)", msk[:pos])]
    return fns[-1].group(1) if fns else "?"


def scan_passed_frames(repo):
    """C16 frame obligation: the host-side frame counter is outside the machine state - only
    frames_count reads it, only new/reset_frame_counter/new_frame write it, and only
    emulate_frames asks for it"""
    ob = "scan::passed_frames touched only by {new, frames_count, reset_frame_counter} and the `+= 1` at the frame end; frames_count called only by emulate_frames"
    ok_fns = {"new", "frames_count", "reset_frame_counter"}
    bad, seen = [], 0
    for rel, src, msk in _core_sources(repo):
        for m in re.finditer(r"\bpassed_frames\b", msk):
            seen += 1
            # the field declaration itself
            line = msk[msk.rfind("\n", 0, m.start()) + 1:msk.find("\n", m.end())]
            if re.match(r"\s*(pub(\([a-z]+\))?\s+)?passed_frames\s*:\s*usize\s*,", line):
                continue
            fn = _enclosing_fn(msk, m.start())
            # the per-frame increment: a self-update, nothing else may depend on the value
            if rel.endswith("zx/controller.rs") and fn in ("wait_internal", "new_frame") and \
                    re.match(r"\s*self\s*\.\s*passed_frames\s*\+=\s*1\s*;\s*$", line):
                continue
            if not (rel.endswith("zx/controller.rs") and fn in ok_fns):
                bad.append("%s::%s" % (rel, fn))
        for m in re.finditer(r"\bframes_count\s*\(", msk):
            fn = _enclosing_fn(msk, m.start())
            if msk[:m.start()].rstrip().endswith("fn"):
                continue
            if not (rel.endswith("emulator/mod.rs") and fn == "emulate_frames"):
                bad.append("%s::%s (calls frames_count)" % (rel, fn))
    if seen == 0:
        return dict(status="undecided", obligation=ob, detail="passed_frames not found (lost anchor)")
    if bad:
        return dict(status="fail", obligation=ob, detail="the frame counter of the host's slicing leaks into: %s" % sorted(set(bad)))
    return dict(status="ok", obligation=ob, detail="")


NONDET_TOKENS = (r"\bInstant\b|\bSystemTime\b|std::time|core::time::Instant|\brand\b|\bgetrandom\b|std::thread|\bthread_local\b|"
                 r"\bstatic\s+mut\b|\bHashMap\b|\bHashSet\b|\bRandomState\b|\bUnsafeCell\b|\bRefCell\b|\bCell\s*<|\bunsafe\b|"
                 r"\bMaybeUninit\b|as\s+\*const|as\s+\*mut|\.as_ptr\s*\(|\bAtomic[A-Z]\w+|std::env|\bOnceCell\b")


def scan_nondeterminism(repo):
    """C16 determinism: the emulation crates contain no source of nondeterminism (clock, RNG,
    threads, address-dependent code, interior-mutable statics, unsafe); the host stopwatch is read
    only by emulate_frames (whose contract makes the machine state independent of it)"""
    ob = "scan::no nondeterminism source in rustzx-core/rustzx-z80/aym sources; Stopwatch used only by emulate_frames"
    bad, nfiles = [], 0
    for rel, src, msk in _core_sources(repo, ("rustzx-core/src", "rustzx-z80/src", "aym/src")):
        nfiles += 1
        # test modules are not part of the emulator
        body = msk
        t = re.search(r"#\[cfg\(test\)\]", body)
        if t:
            body = body[:t.start()]
        for m in re.finditer(NONDET_TOKENS, body):
            bad.append("%s: `%s`" % (rel, m.group(0)))
        for m in re.finditer(r"\bEmulationStopwatch\b|\.measure\s*\(", body):
            fn = _enclosing_fn(body, m.start())
            if rel.endswith("host/mod.rs"):
                continue
            if not (rel.endswith("emulator/mod.rs") and fn == "emulate_frames"):
                bad.append("%s::%s reads the host stopwatch" % (rel, fn))
    if nfiles < 20:
        return dict(status="undecided", obligation=ob, detail="sources not found (lost anchor)")
    if bad:
        return dict(status="fail", obligation=ob, detail="nondeterminism source: %s" % sorted(set(bad))[:8])
    return dict(status="ok", obligation=ob, detail="")


MIXER_SINKS = (r"mixer\s*\.\s*(new_frame\s*\(\s*\)|process\s*\(|beeper\s*\.\s*change_state\s*\(|ay\s*\.\s*(read|write|select_reg|set_regs)\s*\(|"
               r"pop\s*\(\s*\)|use_ay\s*=[^=]|volume\s*\()")


def scan_sound_flows(repo):
    """C16 (sound on/off, drained or not): nothing flows from the host-side sound switch or the
    sample queue into the machine - `sound_enabled` is read only by have_sound (host-facing),
    and outside zx/sound the mixer is only fed (process/new_frame/beeper/AY register file) or
    drained by the host (pop)"""
    ob = "scan::sound_enabled read only by have_sound; mixer used outside zx/sound only through {process,new_frame,beeper.change_state,ay.read/write/select_reg/set_regs,pop,use_ay=,volume}"
    bad, seen = [], 0
    for rel, src, msk in _core_sources(repo):
        for m in re.finditer(r"\bsound_enabled\b", msk):
            seen += 1
            fn = _enclosing_fn(msk, m.start())
            line = msk[msk.rfind("\n", 0, m.start()) + 1:msk.find("\n", m.end())]
            if rel.endswith("settings.rs") or re.match(r"\s*(pub\s+)?sound_enabled\s*:\s*bool\s*,", line):
                continue
            if not (rel.endswith("emulator/mod.rs") and fn in ("new", "set_sound", "have_sound")):
                bad.append("%s::%s uses sound_enabled" % (rel, fn))
        for m in re.finditer(r"\bhave_sound\s*\(", msk):
            if not msk[:m.start()].rstrip().endswith("fn"):
                bad.append("%s::%s calls have_sound" % (rel, _enclosing_fn(msk, m.start())))
        if "/zx/sound/" in "/" + rel:
            continue
        for m in re.finditer(r"\bmixer\s*\.", msk):
            seen += 1
            if not re.match(MIXER_SINKS, msk[m.start():m.start() + 80]):
                bad.append("%s::%s: %s" % (rel, _enclosing_fn(msk, m.start()), msk[m.start():m.start() + 40].split("\n")[0]))
    if seen == 0:
        return dict(status="undecided", obligation=ob, detail="no sound_enabled / mixer use found (lost anchor)")
    if bad:
        return dict(status="fail", obligation=ob, detail="sound state flows into the machine: %s" % sorted(set(bad))[:8])
    return dict(status="ok", obligation=ob, detail="")



SZX_MIN = {"CRTR": 37, "Z80R": 37, "SPCR": 8, "AY\\0\\0": 18, "KEYB": 5, "AMXM": 1, "RAMP": 3}
SZX_HANDLER = {"CRTR": "process_crtr_block", "Z80R": "process_z80r_block", "SPCR": "process_spcr_block",
               "AY\\0\\0": "process_ay_block", "KEYB": "process_keyb_block", "AMXM": "process_amxm_block",
               "RAMP": "process_ramp_block"}


def scan_szx_min_sizes(repo):
    """C15 call-site obligation of the szx unit: szx::load hands a block to a handler only after
    checking the minimal size the handler's contract requires (the chunk loop itself is outside the
    Verus subset, so this precondition is discharged on the source text)"""
    import sys
    sys_path = os.path.join(VERIF, "vx")
    if sys_path not in sys.path:
        sys.path.insert(0, sys_path)
    from rustlex import match_close
    ob = "scan::szx::load checks min_size >= handler precondition before dispatching each block id"
    path = os.path.join(repo, "rustzx-core/src/emulator/snapshot/szx.rs")
    if not os.path.isfile(path):
        return dict(status="undecided", obligation=ob, detail="szx.rs missing")
    src = open(path).read()
    m = re.search(r"pub fn load<", src)
    if not m:
        return dict(status="undecided", obligation=ob, detail="lost anchor: szx::load")
    body = src[m.start():]
    t = re.search(r"let\s+min_size\s*=\s*match\s*&id\s*\{(.*?)\n\s*\};", body, re.S)
    g = re.search(r"if\s+block_data\.len\(\)\s*<\s*min_size\s*\{\s*return\s+Err", body)
    if not t or not g:
        return dict(status="undecided", obligation=ob, detail="min_size table / guard not found in this shape (thorough tier: K-core::loaders-szx decides)")
    table = dict((k, int(v)) for k, v in re.findall(r'b"([^"]+)"\s*=>\s*(\d+)', t.group(1)))
    bad = []
    disp = body[g.end():]
    for bid, need in SZX_MIN.items():
        # every dispatch arm that calls the handler must be guarded by a table entry >= need
        if re.search(r"\b%s\s*\(" % SZX_HANDLER[bid], disp):
            if table.get(bid, 0) < need:
                bad.append("%s: min_size %s < %d required by %s" % (bid.replace("\\0", "\\\\0"), table.get(bid), need, SZX_HANDLER[bid]))
    # handlers must not be called from anywhere before the guard
    for h in set(SZX_HANDLER.values()):
        if re.search(r"\b%s\s*\(" % h, body[:g.start()]):
            bad.append("%s called before the size guard" % h)
    if bad:
        return dict(status="fail", obligation=ob, detail="; ".join(bad))
    return dict(status="ok", obligation=ob, detail="")



def scan_paging_writers(repo):
    allowed = {"rustzx-core/src/zx/controller.rs::write_7ffd", "rustzx-core/src/zx/controller.rs::restore_7ffd"}
    found = grep_writers(repo, "paging_enabled", allowed) | grep_writers(repo, "current_port_7ffd", allowed)
    ob = "scan::frame(paging_enabled,current_port_7ffd) writers within {write_7ffd, restore_7ffd}"
    extra = found - allowed
    if extra:
        return dict(status="fail", obligation=ob, detail="new writer(s) of the paging latch/lock: %s" % sorted(extra))
    if not found:
        return dict(status="undecided", obligation=ob, detail="no writer found (lost anchor)")
    return dict(status="ok", obligation=ob, detail="")


CORE_ASSUME = [
    "Kani harnesses run on an add-only overlay of a scratch copy of /repo (kani/inject.py); proc-macro2 bumped to 1.0.106 in the scratch Cargo.lock (build-script dependency only)",
]

K_MACHINE = dict(name="K-core::machine", package="rustzx-core", features="full",
                 harnesses=["specs_48k", "specs_128k", "bank_is_contended"],
                 functions={"specs_48k": ["ZXMachine::specs / SPECS_48K (ZXSpecsBuilder::build)"],
                            "specs_128k": ["ZXMachine::specs / SPECS_128K (ZXSpecsBuilder::build)"],
                            "bank_is_contended": ["ZXMachine::bank_is_contended"]},
                 assumptions=CORE_ASSUME)

SOURCE_COMMITS = []

NOT_APPLICABLE = {
}
# properties whose units are not built yet are listed as not claimed until their check exists
for _p in ["C%02d" % i for i in range(1, 21)]:
    NOT_APPLICABLE.setdefault(_p, "check not built yet in this round (planned, see DESIGN.md §4)")

CTL_STUBS = [
    "Kani stubs in controller-level harnesses: libm::sqrt (exact on {0,0.5,1}, else arbitrary >= 0; feeds AY pan gains only), "
    "ZXMixer::process and ZXScreen::process_clocks replaced by no-ops (take &mut to their own struct only; C19/C08 own their behaviour)",
    "host traits implemented by kani/core/host.rs (VHost): recording IoExtender with one symbolic claim answer per access",
]

K_READ_IO = dict(name="K-core::ctl_io", package="rustzx-core", features="full",
                 harnesses=["read_io_routing", "read_io_floating"],
                 functions={"read_io_routing": ["ZXController::read_io (real controller built by ZXController::new, features full)",
                                                "ZXAyChip::read", "KempstonJoy::read"]},
                 assumptions=CORE_ASSUME + CTL_STUBS + [
                     "read_io_routing fixes frame_clocks=100 (no contention / no picture fetch): complete in port, device "
                     "configuration and device state; the clock dimension of the floating bus is the Verus contract of floating_bus_value"],
                 timeout=3000)

K_AYREGS = dict(name="K-core::ay-restore", package="rustzx-core", features="full", harnesses=["ay_set_regs_selection"],
                functions={"ay_set_regs_selection": ["ZXAyChip::set_regs", "ZXAyChip::select_reg", "ZXAyChip::write"]},
                assumptions=CORE_ASSUME + ["libm::sqrt stubbed while constructing the controller; the real aym::AymPrecise::write_register runs"],
                timeout=3000)

K_PAGING_TWIN = dict(name="K-core::paging-twin", package="rustzx-core", features="full", harnesses=["write_7ffd_paging_twin"],
                     functions={"write_7ffd_paging_twin": ["ZXController::write_7ffd", "ZXController::restore_7ffd", "ZXMemory::remap", "ZXMemory::get_page"]},
                     assumptions=CORE_ASSUME + ["libm::sqrt stubbed while constructing the controller"], timeout=3000)

# Verus obligations that have a bit-precise Kani twin: (unit, function, regex on the failed clause) -> harness.
# If Verus fails such an obligation and the twin PASSES in the same run, the failure is prover incompleteness
# (e.g. a harmless rewrite that needs a by(bit_vector) hint) and is reported as undecided, never as a violation;
# if the twin fails too, both are reported and the twin supplies the counterexample.
VERUS_TWINS = [
    ("ctl", "write_7ffd", r"inv\(\)|inv_l\(", "write_7ffd_paging_twin"),
]

K_TRAP = dict(name="K-core::trap", package="rustzx-core", features="full", harnesses=["pc_callback_trap"],
              functions={"pc_callback_trap": ["ZXController::pc_callback"]}, assumptions=CORE_ASSUME)
K_BREAK = dict(name="K-core::breakpoint", package="rustzx-core", features="full", harnesses=["pc_callback_breakpoint"],
               functions={"pc_callback_breakpoint": ["ZXController::pc_callback (debug interface arm)"]}, assumptions=CORE_ASSUME)
K_ROM = dict(name="K-core::rom", package="rustzx-core", features="full", harnesses=["page_slices"], jobs=1,
             functions={"page_slices": ["ZXMemory::ram_page_data", "ZXMemory::ram_page_data_mut", "ZXMemory::rom_page_data_mut"]},
             assumptions=CORE_ASSUME + ["ROM *contents*: load_default_rom / load_rom_binary_16k_pages copy whole pages into rom_page_data_mut(page) (one copy_from_slice / read_exact per page, read from source); a Kani harness comparing against the embedded images crashed CBMC (status 139) and was dropped"])

K_INPUT = dict(name="K-core::input", package="rustzx-core", features="full",
               harnesses=["key_table_and_send_key", "sinclair_table_and_send", "compound_keys", "kempston_joy", "kempston_mouse", "mouse_events_reach_device", "kempston_events_reach_device"],
               functions={"key_table_and_send_key": ["ZXKey::row_id", "ZXKey::mask", "ZXKey::half_port", "ZXController::send_key"],
                          "sinclair_table_and_send": ["sinclair_event_to_zx_key", "ZXController::send_sinclair_key"],
                          "compound_keys": ["CompoundKey::modifier_mask/modifier_key/primary_key", "ZXController::send_compound_key"],
                          "kempston_joy": ["KempstonJoy::key", "KempstonJoy::read"],
                          "kempston_mouse": ["KempstonMouse::send_button", "KempstonMouse::send_wheel", "KempstonMouse::send_pos_diff", "KempstonMouse::default"]},
               assumptions=CORE_ASSUME + ["libm::sqrt stubbed while constructing the controller (AY pan gains only)"])

Z80_ASSUME = [
    "Kani harnesses run on an add-only overlay of a scratch copy of /repo (kani/inject.py): cfg-guarded accessors Regs::verif_get/verif_set, Z80::verif_active_prefix/verif_set_active_prefix/verif_im",
    "reference semantics kani/z80/reference.rs (independent NMOS Z80 model written from documentation: Zilog manual, undocumented-Z80 notes, MEMPTR/Q research, block-I/O flag research) is the specification",
    "reachable-state invariant of Z80 as precondition: active_prefix in {None,DD,ED,FD}; active_prefix != None => skip_interrupt; halted => no pending prefix and the byte at PC is 0x76; IM <= 2",
    "Q after a repeating LDIR/LDDR/CPIR/CPDR iteration is not compared (undocumented; unobservable unless the block op overwrites its own opcode)",
    "NMI while the EI/DI/prefix shadow is active follows the implementation's step structure (statement silent)",
    "order of bus events inside interrupt entry follows the implementation (statement gives totals 13/19/11 only)",
]
Z80_FUNCS = ["Z80::emulate", "Z80::handle_interrupt", "Z80::fetch_byte/fetch_word", "execute_normal", "execute_extended",
             "execute_bits", "execute_alu_8", "execute_rot", "execute_ldi_ldd", "execute_cpi_cpd", "execute_ini_ind",
             "execute_outi_outd", "execute_push_16", "execute_pop_16", "Regs::* (all accessors used by the above)",
             "Opcode::from_byte", "U1/U2/U3::from_byte", "Prefix::from_byte/to_byte", "tables::*", "Z80Bus default methods wait_loop/read/write/read_word/write_word"]
Z80_INSTR = ["plain_all", "cbx_all", "ed_all", "dd_all", "fd_all", "ddcb_idx", "fdcb_idx", "pend_dd", "pend_fd", "pend_ed",
             "halt_enter", "halt_stay"]
Z80_SPEC = ["spec_int_im01", "spec_int_im2", "spec_nmi", "spec_shadow_prefix_retn_halt"]
Z80_INT = ["int_nmi_intlow", "int_nmi_inthigh", "int_im0", "int_im1", "int_im2", "int_masked", "int_shadow"]


def k_z80(name, harnesses, tier="quick"):
    return dict(name=name, package="rustzx-z80", harnesses=harnesses, flags=["--solver", "cadical"], jobs=6,
                functions={"*": Z80_FUNCS}, assumptions=Z80_ASSUME, finder="z80", timeout=5400, tier=tier)


K_AYM = dict(name="K-aym", package="aym",
             harnesses=["tone_period_and_tick", "noise_period_and_tick", "envelope_shapes", "envelope_period",
                        "register_decode_and_mixer", "mixer_level_index", "mixer_gating_and_levels", "envelope_restart",
                        "dac_tables_monotone", "stereo_modes"],
             functions={"tone_period_and_tick": ["AymPrecise::set_tone", "AymPrecise::update_tone"],
                        "noise_period_and_tick": ["AymPrecise::set_noise", "AymPrecise::update_noise"],
                        "envelope_shapes": ["AymPrecise::set_envelope_shape", "update_envelope", "slide_up", "slide_down", "hold_top", "hold_bottom", "reset_segment", "ENVELOPES", "ENVELOPE_RESET_TO_MAX"],
                        "envelope_period": ["AymPrecise::set_envelope", "update_envelope"],
                        "register_decode_and_mixer": ["AymPrecise::write_register", "set_mixer", "set_volume"],
                        "mixer_level_index": ["AymPrecise::update_mixer (level index, assert!(out < 32))"],
                        "mixer_gating_and_levels": ["AymPrecise::update_mixer (gating, level selection, panning sums)"],
                        "envelope_restart": ["AymPrecise::set_envelope_shape", "reset_segment"],
                        "dac_tables_monotone": ["AY_DAC_TABLE", "YM_DAC_TABLE"],
                        "stereo_modes": ["AymBackend::new (pan table)", "AymPrecise::set_pan"]},
             assumptions=["harness module is spliced as a child of aym::backends::precise (overlay, cfg(kani)) to reach private generator functions",
                          "libm::sqrt stubbed (exact on 0, 0.5, 1): only the pan gains use it",
                          "envelope_shapes simulates 160 envelope ticks per shape: every trajectory is periodic with period <= 64 after 32 ticks, so all reachable transitions are visited (complete by periodicity, stated in the harness)"])

K_AYM_FLOAT = dict(name="K-aym::resampler", package="aym", tier="thorough", harnesses=["resampler_phase_bounded"], jobs=1, timeout=3000,
                   functions={"resampler_phase_bounded": ["AymPrecise::process (phase accumulator and one output sample)"]},
                   assumptions=["one process() call from a freshly constructed chip with symbolic phase in [0,1) and symbolic sample rate 8-384 kHz (interpolator history zero): establishes the phase invariant, not amplitude bounds over time"])

K_AUDIO = dict(name="K-core::audio", package="rustzx-core", features="full",
               harnesses=["beeper_levels", "mixer_sample_composition"],
               functions={"beeper_levels": ["ZXBeeper::change_state", "ZXBeeper::gen_sample"],
                          "mixer_sample_composition": ["ZXMixer::gen_sample", "SoundSample::mix / mul_eq / into_f32"]},
               bounded={"mixer_sample_composition": "master volume in {0, 0.25, 0.5, 1}, stubbed AY sample levels in {0, 0.125, 1.5, 3} per channel (symbolic float products did not finish); every source on/off and speaker/MIC combination"},
               assumptions=CORE_ASSUME + ["mixer_sample_composition stubs ZXAyChip::gen_sample (the AY sample value is C18's float path)"])
K_AUDIO_SLOW = dict(name="K-core::audio-float", package="rustzx-core", features="full", tier="thorough",
                    harnesses=["sample_index_range", "sample_index_floor", "frame_position"], jobs=3, timeout=5400,
                    bounded={"sample_index_floor": "8 common sample rates (8000..192000 Hz), position symbolic"},
                    functions={"sample_index_range": ["ZXMixer::sample_count_for_frame_fraction", "ZXMixer::samples_per_frame"],
                               "sample_index_floor": ["ZXMixer::sample_count_for_frame_fraction"],
                               "frame_position": ["ZXController::frame_pos"]},
                    assumptions=CORE_ASSUME + ["f64 division/multiplication decided bit-precisely by CBMC (slow: minutes)"])

K_VTX = dict(name="K-vtx", package="vtx", harnesses=["play_mono", "play_stereo"], jobs=2, timeout=2400,
             bounded={"play_mono": "register bytes symbolic; enumerated: 2 frames (and 0 frames), samples_per_frame in {1,2}, first play() call of 0..4 samples then the rest",
                      "play_stereo": "register bytes symbolic; enumerated: 2 frames (and 0 frames), samples_per_frame in {1,2}, first play() call of 0..4 samples then the rest"},
             functions={"*": ["Player::new", "Player::play", "Player::update_ay"]},
             assumptions=["recording AymBackend (sample k has value k) stands in for the chip; harness spliced into vtx (overlay)"])

LOADER_ASSUME = CORE_ASSUME + CTL_STUBS + [
    "asset = in-memory array with a reported length and an injected read/seek failure index",
    "page accessors replaced by 4-byte stand-in pages (see K-core::sna); refresh_memory_dependent_devices stubbed",
    "miniz_oxide inflate (compressed SZX pages), flate2 and delharc are third-party decoders, not verified: assumed to return Ok/Err within their documented limits"]
# szx_crtr and szx_ramp exist in kani/core/loaders.rs but are not registered: on the final tree they
# did not finish within 45 minutes each (ramp peaked at 34 GB); both handlers are verified for every
# block content by the Verus unit szx, and the size table that guards them by scan_szx_min_sizes
SZX_H = ["szx_z80r", "szx_spcr", "szx_ay", "szx_keyb", "szx_amxm", "szx_unknown"]
K_LOADERS = dict(name="K-core::loaders-sna", package="rustzx-core", features="full",
                 harnesses=["sna_header_48k", "sna_header_128k", "sna_rejects", "sna_faults_48k", "sna_faults_128k"], jobs=5, timeout=3000,
                 functions={"sna_header_48k": ["sna::load (header decode)", "Z80::set_im", "ZXColor::from_bits"], "sna_header_128k": ["sna::load (128K path)"],
                            "sna_rejects": ["sna::load (size / model checks)"], "sna_faults_48k": ["sna::load (error paths)"], "sna_faults_128k": ["sna::load (error paths)"]},
                 assumptions=LOADER_ASSUME + ["sna_rejects / sna_faults_*: machine, file size class and failing call index enumerated concretely (8 cases each), header bytes and prior CPU state symbolic"])
# C14 also needs the RAM-bank placement of sna::load: the two fresh-receiver round trips run in the
# same cargo-kani invocation as the header harnesses (no extra wall time at -j 7)
K_LOADERS_C14 = dict(K_LOADERS, name="K-core::loaders-sna+banks",
                     harnesses=K_LOADERS["harnesses"] + ["sna_rt_48k_fresh", "sna_rt128_fresh"], jobs=7,
                     functions=dict(K_LOADERS["functions"], sna_rt_48k_fresh=["sna::save", "sna::load (48K RAM pages, PC from the stack)"],
                                    sna_rt128_fresh=["sna::save", "sna::load (128K bank placement, latch)"]),
                     assumptions=K_LOADERS["assumptions"] + ["round-trip harnesses: see K-core::sna (SP fixed, bank markers / stand-in pages)"])
K_LOADERS_SZX = dict(name="K-core::loaders-szx", package="rustzx-core", features="full", tier="thorough",
                 harnesses=SZX_H, jobs=3, timeout=7200,
                 bounded={h: "SZX file of one block; declared size / length enumerated in {0, min-1, min, 40, 2^31}; block content symbolic; stored pages; 4-byte stand-in pages" for h in SZX_H},
                 functions={"szx_z80r": ["szx::load", "szx::process_z80r_block"], "szx_spcr": ["szx::process_spcr_block"], "szx_ay": ["szx::process_ay_block", "ZXAyChip::set_regs"],
                            "szx_keyb": ["szx::process_keyb_block"], "szx_amxm": ["szx::process_amxm_block"],
                            "szx_unknown": ["szx::load (unknown block skipped)"]},
                 assumptions=LOADER_ASSUME)

K_REFRESH = dict(name="K-core::screen", package="rustzx-core", features="full",
                 harnesses=["refresh_shadow_48k", "refresh_shadow_128k"], jobs=2, timeout=3000,
                 functions={"*": ["ZXController::refresh_memory_dependent_devices"]},
                 assumptions=CORE_ASSUME + ["libm::sqrt stubbed while constructing the controller",
                     "ram_page_data replaced by 4-byte stand-in pages and ZXScreen::update by a call recorder: the harness proves the call structure of refresh (every byte of banks 0 / 5 and 7 is forwarded with its bank and offset) for all page contents and paging states; the loop is parametric in the slice length; update's effect is its Verus contract"])

K_VTXLOAD = dict(name="K-vtx::load", package="vtx", harnesses=["vtx_load_header"], jobs=1, timeout=1200,
                 bounded={"vtx_load_header": "5 invalid header variants, 5 header truncations, valid header + end of file (control bytes concrete, stored bytes symbolic); strings-block contents and LH5 payload NOT covered (CBMC did not finish)"},
                 functions={"*": ["Vtx::load (header, strings block)"]},
                 assumptions=["delharc LH5 decoder not verified"])

K_SNA = dict(name="K-core::sna", package="rustzx-core", features="full",
             harnesses=["sna_rt_48k_same", "sna_rt_48k_fresh", "sna_rt128_same", "sna_rt128_fresh", "page_slices"],
             jobs=5, timeout=3000,
             functions={"*": ["sna::save", "sna::load", "ScopedSnapshotState::enter/drop", "Z80::push_pc_to_stack", "Z80::pop_pc_from_stack",
                              "Regs alternate getters", "ZXController::restore_7ffd/read_7ffd/set_border_color"],
                        "page_slices": ["ZXMemory::ram_page_data", "ZXMemory::ram_page_data_mut", "ZXMemory::rom_page_data_mut"]},
             assumptions=CORE_ASSUME + CTL_STUBS + [
                 "SP fixed at 0x8000 in the round-trip harnesses (save/load depend on SP only through push/pop of PC, covered for every SP by K-z80); symbolic SP did not finish in 25 min",
                 "48K: of every 16 KiB page the first byte (bank marker) and the last two bytes (stack PC) travel through the in-memory file; 128K: page accessors replaced by 8 x 4-byte stand-in pages with fully symbolic content and latch (real 128 KiB arrays needed > 20 GB per CBMC process); that an accessor returns exactly its bank is proved by page_slices",
                 "refresh_memory_dependent_devices stubbed to a no-op (C08 owns it)"])

PROPS = {
    "C14": dict(
        level="proof",
        claim="Kani/CBMC on the real loaders: for every 27-byte SNA header, every prior CPU state and both machines the registers, IFF, interrupt mode, border are exactly the format's decode (Err for mode 3), independent of halted/EI-shadow/prefix state of the receiver, and a snapshot of the other model is rejected; SNA RAM banks and the 128K latch incl. lock through the round-trip harnesses of C13; SZX Z80R decode incl. halted / EI-pending flags (bounded one-block files) and model mismatch rejection; Verus: restore_7ffd sets the latch regardless of a previous lock, ZXAyChip::set_regs restores the register file and programs the generator, every behind-the-bus RAM writer refreshes the display shadow (scan) and refresh covers every display bank (Kani); the real scr::load (Verus, unit scr): a 6912-byte file from a non-failing asset loads, its bytes become the start of the RAM bank mapped at 0x4000 with the rest of that bank and every other bank untouched, the display shadow is rebuilt afterwards, any other size is rejected with the machine unchanged; the real SZX block handlers (Verus, unit szx) for EVERY block content of at least the size szx::load checks: Z80R decodes every register, IFF1/IFF2, IM (3 rejected with the machine untouched), halted (PC behind the HALT), EI-pending, Q, MEMPTR and the frame clock modulo the frame length; SPCR restores the latch (0 on 48K ids), replays port 0xFE and lets the border field win; AY00 selects and restores the register file (and the AY presence on 48K ids); KEYB/AMXM set Kempston joystick/mouse presence; RAMP (stored) puts exactly the 16384 bytes after the prefix into the addressed bank, rejects missing pages and short payloads and touches no other bank.",
        note="SZX chunk loop BOUNDED (one-block files, enumerated sizes; thorough tier only: ~10 min per harness; zlib pages rely on the unverified miniz_oxide). 'Two encodings of the same state behave identically' follows by transitivity through the decode obligations, not mechanised. SCR on a 128K whose shadow screen (bank 7) is displayed goes to bank 5 as implemented (the statement does not say which). SZX halted-PC convention left as implemented (format ambiguity). Defects repaired: model mismatch (SNA, SZX), locked receiver, AY generator not restored, receiver CPU state.",
        verus=["ctl", "scr", "szx"],
        kani=[K_LOADERS_C14, K_LOADERS_SZX, K_REFRESH, K_AYREGS],
        scans=[scan_ram_writers_refresh, scan_szx_min_sizes],
        explanation="loader decode obligations against the format descriptions",
        technique="contract-based deductive verification: Kani/CBMC harnesses on the real loaders + Verus contracts",
    ),
    "C15": dict(
        level="proof",
        claim="Totality obligations: Verus proves termination and absence of panics/overflow/out-of-range access (its default obligations) for the host-trait loops read_exact/write_all under ANY host read/write behaviour, the TAP block reader and pulse state machine for all images, frame_registers, the VTX transposition, BlocksCount, ZXColor::from_bits / set_regs preconditions; the SZX block handlers and scr::load never index out of range for any block content of the checked minimal size (scan: szx::load checks those sizes before dispatch); Kani proves that sna::load returns Ok/Err for every header, reported size class, model combination and an injected asset failure at any call, and (BOUNDED) the same for one-block SZX files and VTX header rejection / truncation / end-of-file cases; every K-z80 group additionally proves Z80::emulate free of panics for every CPU state and bus answer (thorough tier).",
        note="BOUNDED parts are reported under bounded_stand_ins. Third-party decoders (miniz_oxide, flate2/GzipAsset, delharc) are out of reach and assumed. Memory proportionality is the explicit size checks now in the loaders (SZX block size <= rest of file, VTX frame size cap), checked by the harness assertions. Twelve loader defects repaired (see known_findings.json fixed entries).",
        verus=["hostio", "tape", "vtx", "screen", "scr", "szx", "romload"],
        scans=[scan_szx_min_sizes],
        kani=[K_LOADERS, K_LOADERS_SZX, K_VTXLOAD, k_z80("K-z80::total", ["plain_all", "ed_all", "cbx_all"], tier="thorough")],
        explanation="panic-freedom and termination as verifier default obligations on the load paths",
        technique="contract-based deductive verification: Verus default obligations (no panic, no overflow, termination) + Kani/CBMC harnesses",
    ),
    "C13": dict(
        level="proof",
        claim="Kani/CBMC proofs on the real Emulator: for every register value (SP fixed), interrupt mode, border colour and (128K) every paging latch value incl. lock bit, save writes a file from which load restores every SNA-carried item, the latch and lock state and every RAM bank into the same bank, into the same emulator after arbitrary disturbance (registers, halted, EI shadow, border, another paging write that may lock) or into a fresh one; save leaves registers, latch and RAM unchanged. Page accessors return exactly their bank (Kani); restore_7ffd / write_all contracts (Verus).",
        note="Bounded in one dimension: SP concrete. RAM universality through bank markers (48K) / 4-byte stand-in pages (128K), see assumptions. Four defects found and repaired (H'/L' getters, receiver halt/prefix/shadow state, locked receiver).",
        verus=["ctl", "hostio"],
        kani=[K_SNA],
        explanation="save/load round trip on the real emulator with an in-memory file",
        technique="contract-based deductive verification: Kani/CBMC harnesses on the real crate + Verus contracts on extracted functions",
    ),
    "C18": dict(
        level="proof",
        claim="Kani/CBMC proofs of the digital core of the real AymPrecise generator: tone period 12 bits (0 as 1) and flip every TP ticks; noise period 5 bits, 17-bit LFSR with taps 0 and 3 shifting every 2*NP ticks; envelope period 16 bits, level sequence of all 16 shapes equal to the documented closed form; register decode R0-R13 incl. mixer gates and volume/envelope select; DAC level index always < 32 (the assert is unreachable), DAC tables strictly increasing in the 4-bit volume; stereo placement per mode. Port side: register select masks to 4 bits and data read-back returns the last written value (Verus on ZXAyChip; Kani read_io). Controller side (unit ctl): an AY data-port write stores the value and forwards it to the generator under the selected register number; no other port write reaches the generator. Mixer stage (Kani, twin chip): update_mixer's two sums are exactly the DAC levels of (tone|tone_off)&(noise|noise_off) times volume-or-envelope level, panned per channel, for the AY and YM tables; writing the shape register restarts the envelope at the shape's start level.",
        note="Out of reach and NOT claimed: the f64 FIR decimation / DC filter (sample bounds over time, spectral content). The resampler's phase invariant 0 <= x < 1 for every sample rate 8-384 kHz IS checked (thorough tier) and found a defect (phase escaping at rates below 27.7 kHz), repaired. One generator tick = one update_mixer call = f_clk/8, so tone frequency f_clk/(16*TP) etc. follow from the tick contracts by induction (not a mechanised lemma).",
        kani=[K_AYM, K_AYM_FLOAT, K_READ_IO],
        verus=["ctl"],
        explanation="one-tick contracts + closed-form envelope + register decode",
        technique="contract-based deductive verification: Kani/CBMC harnesses on the real crate + Verus contracts on ZXAyChip",
    ),
    "C19": dict(
        level="proof",
        claim="Verus proof on the real ZXMixer queue logic: process appends exactly the samples between the previous and the current sample index of the frame position (never beyond floor(rate/50)), new_frame pads to floor(rate/50) and resets the cursor, so a host draining at frame boundaries gets exactly floor(rate/50) per frame and the queue stays below two frames' worth for any drain behaviour; Kani proofs of the float expressions: sample index <= spf, monotone, = floor(spf*position); frame position in [0,1] and monotone; beeper level = 0.5*speaker + 0.1*MIC, finite and bounded; write_io sets the beeper bits from the ULA write (Verus, unit ctl). Controller side (unit ctl): every bus wait calls mixer.process once (after the tape), every frame end calls mixer.new_frame.",
        note="Not claimed: AY contribution values and master volume scaling (float path of C18). Edge placement 'within one sample' is the composition of the process contract with the write_io contract, not a mechanised lemma. The two slow float harnesses run in the thorough tier only.",
        verus=["mixer", "ctl"],
        kani=[K_AUDIO, K_AUDIO_SLOW],
        explanation="sample counting as queue contracts; float expressions bit-precisely",
    ),
    "C20": dict(
        level="proof",
        category="proof",
        claim="Verus proofs: frame_registers(k) is exactly bytes [14k, 14k+14) or None (no out-of-range access), and the transposition loop of Vtx::load maps register-major to frame-major data without losing or reordering a byte (loop invariant, all lengths). Kani BOUNDED stand-in for Player::play (slice iterator code outside the Verus subset): register writes of frame k exactly before sample k*floor(rate/freq), R13=0xFF skipped, frames*floor(rate/freq) samples per channel then 0, output stream identical for every split into play() calls, mono and stereo.",
        note="The Player part is BOUNDED (2 frames, samples_per_frame <= 2, three calls) and reported under bounded_stand_ins, not counted as discharged obligations. Transposition via R-block extraction (weaker than function extraction).",
        verus=["vtx"],
        kani=[K_VTX],
        explanation="frame indexing + transposition proved; playback bounded",
    ),
    "C01": dict(
        level="proof",
        claim="Kani/CBMC proof of step equivalence: for every CPU state (all registers incl. MEMPTR, Q, alternates, IFF, IM, pending prefix, EI shadow) and every bus answer, one call of the real Z80::emulate yields the same final state and the same ordered memory/port transfers (address, data) as one step of an independent reference NMOS-Z80 semantics; one loop-free full-domain harness per prefix class (unprefixed, CB, ED, DD, FD, DDCB, FDCB, pending-prefix continuations, HALT), covering all 1792 encodings. Sequences follow by induction over steps since equivalence holds from every state.",
        note="Complete (no bound: 8/16-bit domains, wait loops of constant length unwound with unwinding assertions). Trusted: the reference model; state invariant precondition; Q waiver after repeating LDxR/CPxR. Two defects found and repaired (MEMPTR after LD (nn),A and OUT (n),A).",
        kani=[k_z80("K-z80::instr", Z80_INSTR)],
        explanation="real emulate on a recording bus vs reference step replayed against the recorded log",
        technique="contract-based deductive verification: Kani/CBMC loop-free full-domain harnesses asserting the postcondition 'emulate == reference step' on the real crate (bit-precise, complete)",
    ),
    "C02": dict(
        level="proof",
        claim="Kani/CBMC proof of step equivalence restricted to interrupt/NMI/HALT/prefix sequencing: acceptance only with IFF1 set and no EI/DI/prefix shadow (the shadow is part of the compared state, so 'never directly after EI/DI' and 'never inside a prefix chain' hold by induction), IFF1/IFF2 effects, HALT release with return address behind the HALT, vectors 0x0038 / word at I*256+bus byte / 0x0066, halted CPU re-executing HALT advancing only R, RETN/RETI copying IFF2 (ED group), prefix-chain steps (DD/FD/ED after DD/FD) setting the shadow.",
        note="Complete over register state; the acceptance-deciding control inputs (shadow flag, line levels, IFF1, IM2-or-not) are enumerated concretely per harness so all combinations are covered by the six int_* harnesses + the instruction groups (lines low). First handler instruction fixed to NOP (instruction space is C01's).",
        kani=[k_z80("K-z80::int", Z80_INT + ["halt_enter", "halt_stay", "c02_ei", "c02_di", "c02_retn", "c02_reti", "pend_dd", "pend_fd", "pend_ed"]),
              dict(name="K-z80::spec-lemmas", package="rustzx-z80", harnesses=Z80_SPEC, flags=["--solver", "cadical"], jobs=4,
                   functions={"*": ["(specification) kani/z80/reference.rs ref_step: the C02 rules as lemmas over the reference alone"]},
                   assumptions=["lemmas over the reference semantics only: they cross-check the trusted specification against the statement, no real code involved"],
                   timeout=1800),
              k_z80("K-z80::chain", ["dd_all", "fd_all", "ed_all", "plain_all"], tier="thorough")],
        explanation="interrupt acceptance rules as part of the reference step; induction over steps",
        technique="contract-based deductive verification: Kani/CBMC loop-free full-domain harnesses (bit-precise, complete)",
    ),
    "C03": dict(
        level="proof",
        claim="Kani/CBMC proof that for every encoding, state and bus answer the complete sequence of bus cycles of the real Z80::emulate (kind: MREQ wait / no-MREQ single T-state / internal wait / read / write / port in / port out / int-ack, address, clocks) and the T-state total equal the reference's documented machine-cycle script: 4-T fetches, 3-T reads/writes, internal T-states carrying IR/PC/HL/DE/BC/SP/indexed addresses, taken/not-taken forms, every repeat iteration of the block instructions, interrupt entry 13/19/11.",
        note="Port cycles are single read_io/write_io calls whose 4 T are C04's obligation. Reference scripts are the trusted specification. quick runs the unprefixed/CB/ED/DD/FD/DDCB classes and interrupt entry; thorough adds FDCB and the pending-prefix continuations.",
        kani=[k_z80("K-z80::timing", ["plain_all", "cbx_all", "ed_all", "dd_all", "fd_all", "ddcb_idx", "halt_stay"] + Z80_INT),
              k_z80("K-z80::timing-idx", ["fdcb_idx", "pend_dd", "pend_fd", "pend_ed", "halt_enter"], tier="thorough")],
        explanation="bus-cycle trace equality against the reference",
        technique="contract-based deductive verification: Kani/CBMC loop-free full-domain harnesses (bit-precise, complete)",
    ),
    "C08": dict(
        level="proof",
        claim="Deductive proof (Verus): the address helpers are the inverse of the statement's offset formula (bijection lemma); ZXScreen::update changes exactly the shadow cell whose display offset is written; process_clocks draws exactly the blocks the beam passed since the previous call, each pixel = bit 7-(x mod 8) coloured by ink/paper/BRIGHT/FLASH of its attribute (nested loop invariants over a ghost pixel map); new_frame delivers the back buffer and toggles the flash phase every 16 frames; lemmas: a bus write keeps shadow == RAM (invariant K), a full pass over an unchanged shadow yields the standard decode of RAM. write_internal forwards every RAM write through any window to the screen (ghost call log); a syntactic frame obligation requires every behind-the-bus RAM writer to refresh the shadow. Controller side (unit ctl, ghost call logs): every bus wait hands the new in-frame clock to screen.process_clocks, every frame end calls screen.new_frame, and an accepted paging write switches the display to the bank bit 3 selects - nothing else does.",
        note="Assumes host FrameBuffer contract; Box<[T;N]> treated as the owned array; the composition over a frame (K maintained by every writer + process_clocks called with the frame clock from wait_internal + switch_bank selecting bank 5/7) is argued from these contracts, not a single mechanised theorem. Error paths of loaders (partial page write then Err) are not covered. One defect repaired (pokes bypassed the shadow).",
        verus=["screen", "ctl"],
        kani=[K_MACHINE, K_REFRESH, K_PAGING_TWIN],
        scans=[scan_ram_writers_refresh],
        explanation="screen decode: leaf inverses, update/process_clocks/new_frame contracts over ghost pixel maps, invariant K lemmas",
    ),
    "C09": dict(
        level="proof",
        claim="Deductive proof (Verus, all T-states, all write sequences by per-call contracts): next_border_pixel is within 16 px (the statement's tolerance) of the beam position defined by 2 px/T, 224/228 T per line and first picture pixel at 14336/14362; set_border paints exactly the pixels the beam passed since the previous write with the previous colour and nothing else; new_frame completes the frame with the last colour and repaints everything when no write happened; set_border_color / the ULA arm of write_io make the reported border colour the low three bits of the written byte. Controller side (unit ctl): an ULA write hands the border device the new colour together with the in-frame clock at which the write happens, every frame end calls border.new_frame, and no other port or bus wait changes the border log.",
        note="Assumes host FrameBuffer contract (set_color changes exactly one in-range pixel; in-range is proved at every call). The per-pixel statement over a whole frame follows by induction over the per-call contracts (not a Verus lemma). Snapshot border field: covered with C13/C14.",
        verus=["border", "ctl"],
        kani=[K_MACHINE],
        explanation="beam position function with tolerance; fill contracts over a ghost pixel map",
    ),
    "C10": dict(
        level="proof",
        claim="Deductive proof (Verus, all images/block lengths/request parameters, loops by invariant): the real Tap block reader delivers exactly the bytes of the next TAP block (2-byte LE length + payload, 128-byte refill windows are ordinary cases of the representation invariant), and the real fast_load_tap leaves memory, IX, DE and carry equal to a spec function transcribing the ROM's LD-BYTES, performs the RET, selects exactly the next block, and leaves the CPU untouched when no block is left.",
        note="Assumes: host asset contract; the ROM routine is represented by spec fn ld_bytes (transcribed from the ROM listing); cross-unit assume/guarantee between units tape, fastload and ctl (reader and write_internal contracts restated abstractly); the LD-BREAK trap condition (pc_callback) is a Kani harness on the real controller; enum_dispatch forwarding.",
        verus=["tape", "fastload"],
        kani=[K_TRAP],
        explanation="tape block reader refinement + LD-BYTES simulation as loop invariant of the real fast_load_tap",
        not_mechanised=["sequences of requests: each request is one call from any reader state satisfying reader_inv (induction over requests not a Verus lemma)"],
    ),
    "C11": dict(
        level="proof",
        claim="Deductive proof (Verus) that the real Tap::process_clocks refines the standard loader waveform one edge at a time: inside a pulse only the countdown moves; when it has elapsed exactly one edge happens and the next pulse starts with its nominal length (pilot 8063/3223 x 2168, sync 667/735, two equal halves of 855/1710 per bit MSB first for every byte of the block, pause), the state-machine loop terminates, plus a pure lemma that with bus-wait steps of 1..16 T every pulse lasts between nominal+1 and nominal+31 T.",
        note="Assumes: host asset contract. That the controller hands the elapsed T-states of every bus wait to the tape (wait_internal -> tape.process_clocks(clk), ghost call log) is proved in unit ctl. Not mechanised: the 'consequently the ROM loader loads the same' sentence (whole-program).",
        verus=["tape", "ctl"],
        explanation="pulse state machine: per-edge contract `edge(old,new)` + countdown lemma",
        not_mechanised=["ROM loader in real time ends with the same memory as fast loading (whole-program corollary)"],
    ),
    "C12": dict(
        level="proof",
        claim="Deductive proof (Verus) of the deck view of the real Tap: stop freezes position and keeps the resume point (idempotent), play resumes exactly there and is a no-op while playing, process_clocks changes nothing while stopped, rewind and running off the end put the position at the start with a fresh resume point so the next play starts block 0 with a full pilot.",
        note="Two genuine defects found by these obligations were repaired (stop idempotence, stale resume state after rewind/end of tape). Histories by induction over the per-command contracts (not a Verus lemma). Empty tape variant is trivial (read, not contracted).",
        verus=["tape"],
        explanation="deck commands as contracts over (playing, resume(), position)",
    ),
    "C16": dict(
        level="proof",
        claim="The relational statement is decided through the unary contract that implies it: Verus proves on the real Emulator::emulate_frames (with the real ZXController struct, take_events, take_last_emulation_error, reset_frame_counter, process_fast_load_event, EmulationEvents::take) that for EVERY emulation mode, time limit and sequence of stopwatch readings one call performs exactly k+1 applications of ONE machine-step function `substep` (CPU step; pending error; events; fast load before a breakpoint stop) to the machine state (CPU, controller without the host-side frame counter, fast-load switch) and nothing else, stopping early only for the reason it reports; lemma_run_compose then gives slicing independence (a steps then b steps = a+b steps) for frames-per-call, max speed, timeouts and breakpoint stop/resume. reset_frame_counter changes only the frame counter (whole-struct postcondition). LoadableAsset::read_exact delivers exactly the next bytes of the stream for every short-read pattern of the host asset, and the emulator takes asset bytes through read_exact only (scan asset_reads); ZXMixer::pop only removes the head of the sample queue. Source scans discharge the syntactic frame obligations: no nondeterminism source in the emulation crates and the stopwatch is read only by emulate_frames; the frame counter is read only by frames_count/emulate_frames; sound_enabled is read only by have_sound and the mixer is only fed or drained outside zx/sound.",
        note="Bit-identical repeat runs follow from every function being a function of its inputs (safe Rust + the nondeterminism scan) - assumed as Rust semantics, not proved. Z80::emulate and fast_load_tap enter as uninterpreted functions of the machine state (what they compute is C01-C03/C10). Not covered: gzip-wrapped assets (flate2), audio sample values with sound on/off (no audio is delivered when sound is off), host inputs applied mid-frame.",
        verus=["ctl", "hostio", "mixer"],
        scans=[scan_passed_frames, scan_nondeterminism, scan_sound_flows, scan_asset_reads],
        kani=[K_BREAK],
        explanation="slicing independence = emulate_frames is an iterate of one step function (unary functional contract) + composition lemma",
        technique="contract-based deductive verification: Verus contracts on the real emulate_frames/controller/host-io code + composition lemma; syntactic frame scans",
    ),
    "C17": dict(
        level="proof",
        claim="Kani proofs (bit-precise, complete over the finite domains: 40 keys, 2x5 Sinclair controls, 7 compound keys, 8 Kempston bits, 4 mouse buttons, all i8 deltas, all prior matrix states) that every event operation changes exactly its own source's matrix bit / counter as the statement says, preserves the compound-key invariant (CAPS SHIFT held iff some compound key is held), and that the ULA read ANDs all three sources over the selected half-rows (Kani on the real controller, and for every port / frame clock / machine by the Verus contract of the extracted real read_io: result == rows_and(high byte, keyboard, extended, sinclair) with EAR on bit 6); histories follow by induction over these per-event obligations.",
        note="Known finding: Sinclair joystick 2 DOWN maps to key 2 (pinned by an existing test, so recorded, not repaired). Assumes Kani stubs (sqrt; mixer/screen no-ops in the port-read harness). Emulator::send_* wrappers are one-line forwards (not separately contracted).",
        verus=["ctl"],
        kani=[K_INPUT, K_READ_IO],
        explanation="input devices as per-event contracts + row-AND obligation of read_io",
    ),
    "C06": dict(
        level="proof",
        claim="Deductive proof (Verus, all addresses/values/latch histories by invariant induction) that ZXMemory read/write implement the (page,offset) view, that a write is read back through exactly the windows mapping the same bank, that ROM windows ignore writes, and that write_7ffd maintains the paging invariant map = f(machine, latch) with the lock bit; syntactic frame obligations pin the only callers of remap and the only writers of the latch.",
        note="Assumes: extraction rules; ROM *contents*: the real load_rom_binary_16k_pages (Verus, unit romload) puts the first 16 KiB of the i-th supplied image into ROM page i for every page of the machine and fails (no panic) when images are missing; the embedded default images by Kani rom_case; SNA/SZX loaders reach paging only through write_7ffd (scan).",
        verus=["ctl", "romload"],
        kani=[K_ROM, K_PAGING_TWIN],
        scans=[scan_remap_callers, scan_paging_writers],
        explanation="memory map / paging invariant / alias lemma as postconditions of the real ZXMemory and ZXController functions",
        not_mechanised=["induction over histories is the standard argument: every operation preserves inv() (each obligation is proved); the induction itself is not a Verus lemma"],
    ),
    "C07": dict(
        level="proof",
        claim="write side: Verus proof on the extracted real write_io that for every port selecting exactly one device the named device changes as stated and every other device is unchanged, and the extender log grows iff it claims the port; floating_bus_value equals the statement's fetch-window function for all frame clocks. read side: Verus proof on the extracted real read_io, for every port, machine, device presence and every frame clock: a port selecting exactly one device returns that device's value (selected half-rows AND-ed with the tape EAR level on bit 6, mouse ports, AY read-back, Kempston state), the extender's log grows iff it claims the port and its answer is the result, a port no device claims returns the floating-bus byte of the T-state before the last one of the port cycle, and nothing but time changes; the earlier Kani proof on the real controller (all 65536 ports x device presence x device state, two clock situations) is kept as a second engine.",
        note="Assumes: closure postcondition annotation (R-closure) for the extender claim in write_io; in read_io the three-line extender expression `self.io_extender.as_mut().and_then(|e| e.extends_port(port).then(|| e.read(port)))` is replaced by an assumed-contract call (R-opaque: and_then/then with a closure capturing &mut are outside the Verus subset; the expression text is pinned, a change to it makes the run undecided) - the Kani read harness executes the real expression; Kani stubs (sqrt, mixer.process, screen.process_clocks no-ops); ambiguous ports (two devices selected) are outside the statement and unconstrained.",
        verus=["ctl"],
        kani=[K_READ_IO, K_PAGING_TWIN],
        explanation="port decoding as contracts over the real write_io / read_io",
    ),
    "C04": dict(
        level="proof",
        claim="Deductive proof (Verus, unbounded in T, address, port, paging state) that contention_clocks equals the statement's delay function and that every bus-wait method and both port-cycle halves advance emulated time by exactly the contended/uncontended amount; Kani proves the machine constants and the contended-bank table on the real tables.",
        note="Assumes: extraction rules; tape/mixer/screen/border calls touch only their own struct; read_io's port-cycle timing is proved on the extracted real function with its extender expression replaced by an assumed-contract call (R-opaque, see C07); composition over an instruction's bus-cycle list: the list itself (kind, address, clocks of every cycle and every single internal T-state of every instruction) is the K-z80 step-equivalence obligation `C03/C04.trace bus cycles`, which this check runs as well (same harnesses as C03; FDCB / pending-prefix classes in C03's thorough tier only).",
        verus=["ctl"],
        kani=[K_MACHINE,
              k_z80("K-z80::cycles", ["plain_all", "cbx_all", "ed_all", "dd_all", "fd_all", "ddcb_idx", "halt_stay"] + Z80_INT)],
        explanation="ULA contention: contention_clocks == ula_delay for all T; every wait_* advances total "
                    "time by (contended ? ula_delay : 0) + clk; port cycles realise the four patterns.",
        not_mechanised=["composition 'instruction time = uncontended time + sum of delays' rests on C03's bus-cycle list (each cycle maps to one contracted call)"],
    ),
    "C05": dict(
        level="proof",
        claim="Deductive proof that frame length is 69888/70908 (Kani on the real spec tables), that wait_internal conserves total time = frames*F + offset with the overrun carried (Verus, all clocks), that INT is high exactly for in-frame clocks 0..31, plus a syntactic frame obligation that nothing else writes the time fields.",
        note="Assumes: emulate_frames reaches time only through the contracted bus methods; 'exactly one interrupt per frame' is a corollary with C02 (acceptance rules) that is not mechanised as a whole; the part of it that depends on the instruction mix - every instruction of every prefix class ends with the interrupt shadow clear wherever the Z80 clears it, so INT is sampled at least every 23 T and the 32-T pulse cannot be stepped over - is the K-z80 step-equivalence obligation `C02/C05.state no instruction leaves the interrupt shadow set`, run by this check over all ten instruction-class harnesses.",
        verus=["ctl"],
        kani=[K_MACHINE,
              k_z80("K-z80::int-sampling", ["plain_all", "cbx_all", "ed_all", "dd_all", "fd_all", "ddcb_idx", "fdcb_idx",
                                            "pend_dd", "pend_fd", "pend_ed"])],
        scans=[scan_time_writers],
        explanation="frame length constants (Kani on the real tables), time conservation "
                    "total' == total + clk for wait_internal (Verus), INT window == in-frame clocks 0..31",
        not_mechanised=["'interrupted exactly once per frame' (corollary with C02, whole-program)",
                        "emulate_frames driver loop: only reaches time through the contracted bus methods (parametricity assumed)"],
    ),
}

scan_szx_min_sizes.bounded_stand_in = "szx"

for _p in PROPS:
    NOT_APPLICABLE.pop(_p, None)

# development only (tools/mutate_kani.py): the three big Z80 groups as one campaign target
K_Z80_SAMPLE = k_z80("K-z80::sample", ["plain_all", "cbx_all", "ed_all"])
