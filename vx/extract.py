"""Mechanical extractor + contract splicer for Verus units (DESIGN.md §2.2).

A unit template (vx/units/<unit>.rs) is a Verus source file with `//@` directives:

    //@ unit <name>
    //@ props C04 C05                       default properties of the unit
    //@ item <file> <kind> <name>           struct/enum/const/static/type copied verbatim
    //@ fn <file> <path> [nopub] [props Cxx ...] [as <newname>]
    //@ ret <name>                          name the return value
    //@ sig                                 following lines (until next //@) = requires/ensures/decreases
    //@ loop <n>                            following lines = invariant/decreases of n-th loop (0-based)
    //@ at <k> /regex/                      following lines = ghost code inserted before the line of the
    //@                                     k-th (1-based) match of regex in the function body
    //@ end

<path> is `name` (free fn), `impl <header>::name` or `trait <Name>::name`.

The function text is copied from the real file and only rewritten by the closed rule list
R-attr, R-cfg, R-vis, R-arraypat, R-shim (see RULES); contract text is *inserted*, executable
tokens are never edited by anything else.
"""
import hashlib
import os
import re

from rustlex import (LexError, find_block_item, find_impl_blocks, find_trait_block, mask,
                     match_close)

FEATURES = {"ay", "precise-border", "embedded-roms", "autoload", "strum", "zlib", "sound",
            "aym", "miniz_oxide", "std"}

RULES = {
    "R-attr": "doc comments and #[inline]/#[allow]/#[rustfmt::skip]/#[cfg_attr(feature=\"strum\")]/"
              "#[non_exhaustive]/#[must_use] dropped; derive lists filtered to Clone,Copy,PartialEq,Eq,Debug",
    "R-cfg": "#[cfg(..)] resolved for feature set `full` (+sound); dead branch dropped; `cfg!(..)` replaced by its value",
    "R-vis": "visibility normalised to pub (fields and fns)",
    "R-arraypat": "`let [a, b] = E;` -> `let vx_t = E; let a = vx_t[0]; let b = vx_t[1];`",
    "R-shim": "`E.to_le_bytes()` / `u16::from_le_bytes(E)` renamed to assumed-contract shims "
              "vx_u16_to_le_bytes / vx_u16_from_le_bytes (/ vx_u32_from_le_bytes)",
    "R-sig": "contract text inserted between signature and body; loop invariants before loop bodies; "
             "ghost blocks before named statements; return value named",
    "R-derive": "derive lists containing PartialEq+Eq get Verus' ghost marker `Structural` added (states that "
                "the derived == is structural equality, which is Rust's semantics of derive(PartialEq))",
    "R-closure": "a closure `|a| EXPR` named by a directive becomes `|a| -> (r: T) ensures .. { EXPR }` "
                 "(ghost annotation; EXPR verbatim) because Verus does not infer closure postconditions",
    "R-block": "a contiguous statement range of a function (named by two regexes) is lifted verbatim into a "
               "hand-written wrapper fn whose parameters are the variables it reads; flagged weaker than function extraction",
    "R-auto-helper": "a function called by contracted code but not listed in the unit is pulled in verbatim; a single "
                     "side-effect-free expression body gets `ensures r == <expr>` (R-auto-ensures), anything else no contract",
    "R-opaque": "the initializer expression of a `let` statement named by a directive is replaced by a call to an "
                "assumed-contract function declared in the unit; the dropped expression is pinned (whitespace-normalised "
                "text must equal the one in the unit, else the run is undecided) and is listed as unverified",
    "R-auto-const": "a module-level `const` the contracted code uses but the unit does not list (introduced by a change) is copied verbatim",
    "R-wildparam": "a `_: T` function parameter is given a fresh unused name (Verus accepts identifier patterns only)",
    "R-self": "`Self::` in inherent-emitted trait methods left as is",
}


class ExtractError(Exception):
    """lost anchor / construct outside the accepted subset -> undecided (exit 2)"""


def sha(s):
    return hashlib.sha256(s.encode()).hexdigest()[:16]


# ---------------------------------------------------------------- cfg
def eval_cfg(expr):
    expr = expr.strip()
    m = re.match(r'^feature\s*=\s*"([^"]+)"$', expr)
    if m:
        return m.group(1) in FEATURES
    m = re.match(r"^(all|any|not)\s*\((.*)\)$", expr, re.S)
    if m:
        parts, depth, cur = [], 0, ""
        for ch in m.group(2):
            if ch == "(":
                depth += 1
            elif ch == ")":
                depth -= 1
            if ch == "," and depth == 0:
                parts.append(cur)
                cur = ""
            else:
                cur += ch
        if cur.strip():
            parts.append(cur)
        vals = [eval_cfg(p) for p in parts]
        if m.group(1) == "all":
            return all(vals)
        if m.group(1) == "any":
            return any(vals)
        return not vals[0]
    if expr in ("test", "kani", "rustzx_verif", "debug_assertions"):
        return False
    raise ExtractError("R-cfg: cannot evaluate cfg(%s)" % expr)


BLOCKLIKE = {"if", "fn", "pub", "impl", "mod", "for", "while", "loop", "match", "unsafe", "const"}


def _skip_ws(msk, i):
    while i < len(msk) and msk[i] in " \t\n":
        i += 1
    return i


def cfg_target_end(msk, i):
    i = _skip_ws(msk, i)
    # further attributes on the same target
    while msk.startswith("#[", i):
        i = _skip_ws(msk, match_close(msk, i + 1) + 1)
    m = re.match(r"[A-Za-z_]\w*", msk[i:])
    first = m.group(0) if m else msk[i]
    blocklike = first in BLOCKLIKE or first == "{"
    n = len(msk)
    while i < n:
        ch = msk[i]
        if ch in "([{":
            if ch == "{" and blocklike:
                j = match_close(msk, i) + 1
                k = _skip_ws(msk, j)
                if first == "if" and msk.startswith("else", k):
                    i = k + 4
                    continue
                return j
            i = match_close(msk, i) + 1
            continue
        if ch in ")]}":
            return i
        if ch in ";,":
            return i + 1
        i += 1
    return n


def apply_cfg(text, applied):
    while True:
        msk = mask(text)
        mm = re.search(r"\bcfg!\(", msk)
        if mm:
            close = match_close(msk, mm.end() - 1)
            val = eval_cfg(text[mm.end():close])
            applied.add("R-cfg")
            text = text[:mm.start()] + ("true" if val else "false") + text[close + 1:]
            continue
        m = re.search(r"#\[cfg\(", msk)
        if not m:
            return text
        close = match_close(msk, m.start() + 1)
        expr = text[m.end():close - 1]
        # expr is inside cfg( ... ) -> strip the trailing ')'
        inner = text[m.end():match_close(msk, m.end() - 1)]
        val = eval_cfg(inner)
        applied.add("R-cfg")
        if val:
            text = text[:m.start()] + text[close + 1:]
        else:
            end = cfg_target_end(msk, close + 1)
            text = text[:m.start()] + text[end:]


# ---------------------------------------------------------------- attr / vis
DROP_ATTR = re.compile(
    r"^#\[(inline(\(\w+\))?|allow\(.*\)|rustfmt::skip|cfg_attr\(\s*feature\s*=\s*\"strum\".*\)|"
    r"non_exhaustive|must_use|doc\s*=.*|repr\(.*\))\]$", re.S)
KEEP_DERIVES = {"Clone", "Copy", "PartialEq", "Eq", "Debug", "Structural"}


def apply_attr(text, applied):
    # doc comments
    new = re.sub(r"(?m)^[ \t]*///.*\n", "", text)
    new = re.sub(r"(?m)^[ \t]*//!.*\n", "", new)
    if new != text:
        applied.add("R-attr")
    text = new
    pos = 0
    while True:
        msk = mask(text)
        m = re.compile(r"#\[").search(msk, pos)
        if not m:
            break
        close = match_close(msk, m.start() + 1)
        attr = text[m.start():close + 1]
        flat = re.sub(r"\s+", " ", attr)
        if DROP_ATTR.match(flat):
            end = close + 1
            # swallow following whitespace/newline
            while end < len(text) and text[end] in " \t":
                end += 1
            if end < len(text) and text[end] == "\n":
                end += 1
            text = text[:m.start()] + text[end:]
            applied.add("R-attr")
            continue
        dm = re.match(r"#\[derive\((.*)\)\]$", flat)
        if dm:
            names = [x.strip() for x in dm.group(1).split(",") if x.strip()]
            keep = [x for x in names if x.split("::")[-1] in KEEP_DERIVES]
            if keep != names:
                applied.add("R-attr")
            if "PartialEq" in keep and "Eq" in keep and "Structural" not in keep:
                keep = keep + ["Structural"]
                applied.add("R-derive")
            rep = "#[derive(%s)]" % ", ".join(keep) if keep else ""
            text = text[:m.start()] + rep + text[close + 1:]
            pos = m.start() + len(rep)
            continue
        if flat.startswith("#[cfg(") or flat.startswith("#[verifier") or flat.startswith("#[derive"):
            pos = close + 1
            continue
        raise ExtractError("R-attr: attribute outside the accepted list: %s" % flat[:80])
    return text


def apply_vis(text, kind, applied, nopub=False):
    new = re.sub(r"\bpub\s*\(\s*(crate|super|in [\w:]+)\s*\)", "pub", text)
    if kind == "struct":
        msk = mask(new)
        b = msk.find("{")
        if b >= 0:
            e = match_close(msk, b)
            body = new[b + 1:e]
            bm = msk[b + 1:e]
            out, i, depth, at_field = "", 0, 0, True
            while i < len(body):
                ch = bm[i]
                if at_field and depth == 0:
                    fm = re.match(r"(\s*)((?:pub\s+)?)([A-Za-z_]\w*\s*:)", bm[i:])
                    if fm:
                        out += body[i:i + len(fm.group(1))] + "pub " + body[i + len(fm.group(1)) + len(fm.group(2)):i + fm.end()]
                        i += fm.end()
                        at_field = False
                        continue
                if ch in "([{<":
                    depth += 1
                elif ch in ")]}>":
                    depth -= 1
                elif ch == "," and depth == 0:
                    at_field = True
                out += body[i]
                i += 1
            new = new[:b + 1] + out + new[e:]
    if kind in ("fn", "struct", "enum", "const", "static", "type") and not nopub:
        m = re.match(r"(\s*(?:#\[[^\]]*\]\s*)*)(pub\s+)?", new)
        if m and not m.group(2):
            new = new[:m.end()] + "pub " + new[m.end():]
    if new != text:
        applied.add("R-vis")
    return new


def apply_arraypat(text, applied):
    cnt = [0]

    def rep(m):
        cnt[0] += 1
        t = "vx_t%d" % cnt[0]
        names = [x.strip() for x in m.group(1).split(",")]
        out = "let %s = %s;" % (t, m.group(2))
        for i, nm in enumerate(names):
            if nm != "_":
                out += " let %s = %s[%d];" % (nm, t, i)
        applied.add("R-arraypat")
        return out
    return re.sub(r"let\s*\[([^\]]*)\]\s*=\s*([^;]*);", rep, text)


def apply_wildparam(text, applied):
    """`_: T` parameters (Verus wants an identifier) get a fresh, unused name"""
    msk = mask(text)
    m = re.search(r"\bfn\b", msk)
    if not m:
        return text
    lt = msk.find("(", m.end())
    if lt < 0:
        return text
    close = match_close(msk, lt)
    sig = text[lt:close]
    n = [0]

    def sub(mm):
        n[0] += 1
        return "%s_vx_unused%d:" % (mm.group(1), n[0])
    new = re.sub(r"([(,]\s*)_\s*:", sub, sig)
    if new != sig:
        applied.add("R-wildparam")
        text = text[:lt] + new + text[close:]
    return text


def apply_shim(text, applied):
    new = re.sub(r"((?:[A-Za-z_][\w]*(?:\.[A-Za-z_]\w*)*)(?:\([^()]*\))?)\.to_le_bytes\(\)",
                 r"vx_u16_to_le_bytes(\1)", text)
    new = re.sub(r"\bu16::from_le_bytes\(", "vx_u16_from_le_bytes(", new)
    new = re.sub(r"\bu32::from_le_bytes\(", "vx_u32_from_le_bytes(", new)
    if new != text:
        applied.add("R-shim")
    return new


# ---------------------------------------------------------------- lookup
def locate(repo, relfile, path):
    full = os.path.join(repo, relfile)
    if not os.path.isfile(full):
        raise ExtractError("lost anchor: %s missing" % relfile)
    src = open(full).read()
    msk = mask(src)
    m = re.match(r"^(impl|trait)\s+(.*)::(\w+)$", path.strip())
    cands = []
    if m:
        if m.group(1) == "impl":
            blocks = find_impl_blocks(src, msk, m.group(2))
        else:
            b = find_trait_block(src, msk, m.group(2))
            blocks = [b] if b else []
        if not blocks:
            raise ExtractError("lost anchor: %s `%s` not in %s" % (m.group(1), m.group(2), relfile))
        for lo, hi in blocks:
            cands += find_block_item(src, msk, "fn", m.group(3), lo, hi, 0)
        name = m.group(3)
    else:
        name = path.strip()
        cands = find_block_item(src, msk, "fn", name, 0, None, 0)
        if not cands:
            # a method of some other impl block of the file (helper moved / added next to the type)
            cands = find_block_item(src, msk, "fn", name, 0, None, 1)
    if not cands:
        raise ExtractError("lost anchor: fn %s not found in %s" % (path, relfile))
    texts = []
    for s, e, _ in cands:
        t = src[s:e]
        # pick the candidate whose own cfg evaluates to true
        ok = True
        for cm in re.finditer(r"#\[cfg\(", mask(t)):
            tm = mask(t)
            # only attributes before the `fn` keyword
            if cm.start() > re.search(r"\bfn\b", tm).start():
                break
            inner = t[cm.end():match_close(tm, cm.end() - 1)]
            if not eval_cfg(inner):
                ok = False
        if ok:
            texts.append(t)
    if len(texts) != 1:
        raise ExtractError("lost anchor: %d live candidates for fn %s in %s" % (len(texts), path, relfile))
    return name, texts[0]


def locate_item(repo, relfile, kind, name):
    full = os.path.join(repo, relfile)
    if not os.path.isfile(full):
        raise ExtractError("lost anchor: %s missing" % relfile)
    src = open(full).read()
    msk = mask(src)
    hits = find_block_item(src, msk, kind, name, 0, None, 0)
    if len(hits) != 1:
        raise ExtractError("lost anchor: %d matches for %s %s in %s" % (len(hits), kind, name, relfile))
    s, e, _ = hits[0]
    return src[s:e]


# ---------------------------------------------------------------- splice
def fn_parts(text):
    """return (sig_end_index = position of body '{', ret_span or None)"""
    msk = mask(text)
    m = re.search(r"\bfn\s+\w+", msk)
    i = m.end()
    # generics
    i = _skip_ws(msk, i)
    if msk[i] == "<":
        d = 0
        while True:
            if msk[i] == "<":
                d += 1
            elif msk[i] == ">" and msk[i - 1] != "-":
                d -= 1
                if d == 0:
                    i += 1
                    break
            i += 1
    p = msk.find("(", i)
    pe = match_close(msk, p)
    j = pe + 1
    depth = 0
    body = None
    while j < len(msk):
        ch = msk[j]
        if ch in "([":
            depth += 1
        elif ch in ")]":
            depth -= 1
        elif ch == "{" and depth == 0:
            body = j
            break
        elif ch == ";" and depth == 0:
            raise ExtractError("fn without body")
        j += 1
    if body is None:
        raise ExtractError("fn body not found")
    ret = None
    between = msk[pe + 1:body]
    rm = re.search(r"->", between)
    if rm:
        rs = pe + 1 + rm.end()
        wm = re.search(r"\bwhere\b", msk[rs:body])
        re_ = rs + wm.start() if wm else body
        ret = (rs, re_)
    return body, ret


def loops_in(msk, lo, hi):
    res = []
    for m in re.finditer(r"\b(while|for|loop)\b", msk[lo:hi]):
        i = lo + m.end()
        depth = 0
        while i < hi:
            ch = msk[i]
            if ch in "([":
                depth += 1
            elif ch in ")]":
                depth -= 1
            elif ch == "{" and depth == 0:
                break
            i += 1
        res.append(i)
    return res


def splice_fn(text, spec):
    """spec: dict(ret=, sig=, loops={n: txt}, ats=[(k, regex, txt)], rename=)"""
    body, ret = fn_parts(text)
    msk = mask(text)
    edits = []  # (pos, insert_text) applied right-to-left; (a,b,text) for replacements
    end = match_close(msk, body)
    if spec.get("ret"):
        if ret is None:
            raise ExtractError("`ret` given but function has no return type")
        a, b = ret
        ty = text[a:b].strip()
        edits.append((a, b, " (%s: %s) " % (spec["ret"], ty)))
    if spec.get("sig"):
        edits.append((body, body, "\n" + spec["sig"].rstrip() + "\n"))
    lp = loops_in(msk, body + 1, end)
    for n, txt in spec.get("loops", {}).items():
        if n >= len(lp):
            raise ExtractError("lost anchor: loop %d not found (function has %d loops)" % (n, len(lp)))
        edits.append((lp[n], lp[n], "\n" + txt.rstrip() + "\n"))
    for n, nm in spec.get("iters", {}).items():
        # R-sig: name the iterator of a `for PAT in EXPR` loop (Verus ghost syntax `for PAT in nm: EXPR`)
        hdr = [m for m in re.finditer(r"\b(while|for|loop)\b", msk[body + 1:end])]
        if n >= len(hdr) or hdr[n].group(1) != "for":
            raise ExtractError("lost anchor: loop %d is not a for loop" % n)
        im = re.compile(r"\bin\b").search(msk, body + 1 + hdr[n].end())
        edits.append((im.end(), im.end(), " %s:" % nm))
    for k, rx, txt, where in spec.get("ats", []):
        if k == 0:
            # `at 0 //`: ghost code at the very start of the body (no dependence on code text)
            edits.append((body + 1, body + 1, "\n" + txt.rstrip() + "\n"))
            continue
        hits = [m for m in re.finditer(rx, msk[body + 1:end])]
        if len(hits) < k:
            raise ExtractError("lost anchor: /%s/ #%d not found in function body" % (rx, k))
        pos = body + 1 + (hits[k - 1].start() if where == "before" else max(hits[k - 1].start(), hits[k - 1].end() - 1))
        if where == "before":
            ls = text.rfind("\n", 0, pos) + 1
            edits.append((ls, ls, txt.rstrip() + "\n"))
        else:
            le = text.find("\n", pos)
            edits.append((le + 1, le + 1, txt.rstrip() + "\n"))
    for k, rx, rname, rty, txt in spec.get("closures", []):
        hits = [m for m in re.finditer(rx, msk[body + 1:end])]
        if len(hits) < k:
            raise ExtractError("lost anchor: closure /%s/ #%d not found" % (rx, k))
        hs = body + 1 + hits[k - 1].end()      # just after the closure head `|..|`
        # closure body expression: up to the unmatched ')' or a ',' at depth 0
        i, depth = hs, 0
        while i < end:
            ch = msk[i]
            if ch in "([{":
                depth += 1
            elif ch in ")]}":
                if depth == 0:
                    break
                depth -= 1
            elif ch == "," and depth == 0:
                break
            i += 1
        edits.append((hs, hs, " -> (%s: %s)\n%s\n{ " % (rname, rty, txt.rstrip())))
        edits.append((i, i, " }"))
    for k, rx, repl, expect in spec.get("opaques", []):
        # R-opaque: the initializer of the k-th `let` statement matching rx is replaced by a call to an
        # assumed-contract function; the dropped expression must still be the one the unit was written for
        hits = [m for m in re.finditer(rx, msk[body + 1:end])]
        if len(hits) < k:
            raise ExtractError("lost anchor: opaque /%s/ #%d not found" % (rx, k))
        st = body + 1 + hits[k - 1].start()
        eq = msk.find("=", st)
        i, depth = eq + 1, 0
        while i < end:
            ch = msk[i]
            if ch in "([{":
                depth += 1
            elif ch in ")]}":
                depth -= 1
            elif ch == ";" and depth == 0:
                break
            i += 1
        dropped = re.sub(r"\s+", "", text[eq + 1:i])
        if dropped != re.sub(r"\s+", "", expect):
            raise ExtractError("lost anchor: the expression left unverified by R-opaque changed: `%s`" % dropped[:200])
        spec.setdefault("dropped", []).append(dropped)
        edits.append((eq + 1, i, " " + repl))
    if spec.get("rename"):
        m = re.search(r"\bfn\s+(\w+)", msk)
        edits.append((m.start(1), m.end(1), spec["rename"]))
    for a, b, t in sorted(edits, key=lambda e: (e[0], e[1]), reverse=True):
        text = text[:a] + t + text[b:]
    return text


def rewrite(text, kind, nopub=False):
    applied = set()
    # leading plain comments in front of the item are not part of it
    text = re.sub(r"\A(?:[ \t]*//[^\n]*\n|[ \t]*\n)+", "", text)
    text = apply_cfg(text, applied)
    text = apply_attr(text, applied)
    text = apply_vis(text, kind, applied, nopub)
    if kind == "fn":
        text = apply_wildparam(text, applied)
        text = apply_arraypat(text, applied)
        text = apply_shim(text, applied)
    return text, applied


def auto_helper(repo, relfile, path, hname, nopub):
    """A function the contracted code calls but the unit does not list (e.g. a helper introduced by a
    refactor) is pulled in mechanically.  If its body is a single side-effect-free expression
    (operators, literals, parameters, field reads) it gets the strongest postcondition
    `ensures r == <that expression>`; otherwise it comes without a contract."""
    m = re.match(r"^(impl|trait)\s+(.*)::(\w+)$", path.strip())
    hpath = "%s %s::%s" % (m.group(1), m.group(2), hname) if m else hname
    try:
        _, raw = locate(repo, relfile, hpath)
    except ExtractError:
        _, raw = locate(repo, relfile, hname)
    txt, rules = rewrite(raw, "fn", nopub)
    body, ret = fn_parts(txt)
    msk = mask(txt)
    end = match_close(msk, body)
    inner = txt[body + 1:end].strip()
    pure = False
    if ret is not None and ";" not in mask(inner) and not re.search(r"\b\w+\s*\(|\bif\b|\bmatch\b|\bloop\b|\bwhile\b|\bfor\b|\bunsafe\b|!\s*\(", mask(inner).replace("(", " (").replace("  (", " (")) :
        pure = True
    # (an `if .. else ..` over comparisons, field reads and constants is still a side-effect-free expression)
    if ret is not None and ";" not in mask(inner) and not re.search(r"[A-Za-z_]\w*\s*\(", mask(inner)) \
            and not re.search(r"\b(match|loop|while|for|unsafe|let|return|break|continue)\b", mask(inner)) \
            and not re.search(r"(?<![=!<>])=(?!=)", mask(inner)):
        pure = True
        txt = splice_fn(txt, dict(ret="vx_r", sig="        ensures vx_r == (%s)," % inner, loops={}, ats=[], rename=None, closures=[], iters={}))
        rules.add("R-auto-ensures")
    else:
        pure = False
    rules.add("R-auto-helper")
    return txt, rules, pure


# ---------------------------------------------------------------- template
class Unit:
    def __init__(self):
        self.name = None
        self.props = []
        self.text = ""
        self.items = []     # dict(kind, file, path, props, sha_before, sha_after, rules, line_lo, line_hi, name)
        self.clauses = 0
        self.assumptions = []


def build_unit(template_path, repo, canary=False, helpers=None, nodecr=None):
    helpers = helpers or {}
    nodecr = nodecr or set()
    lines = open(template_path).read().split("\n")
    u = Unit()
    out = []
    i = 0

    def cur_line():
        return sum(x.count("\n") + 1 for x in out) + 1

    while i < len(lines):
        ln = lines[i]
        s = ln.strip()
        if not s.startswith("//@"):
            out.append(ln)
            i += 1
            if s == "verus! {":
                # R-auto-const: module-level constants the contracted code started to use (introduced by a
                # change) are copied verbatim from the file of the function that uses them
                fn_files = [re.match(r"//@\s*fn\s+(\S+)", x.strip()).group(1) for x in lines
                            if re.match(r"//@\s*fn\s+\S+", x.strip())]
                done = set()
                for ordn, names in sorted(helpers.items()):
                    for hname in names:
                        if not hname.startswith("const:") or hname in done or ordn >= len(fn_files):
                            continue
                        done.add(hname)
                        raw = locate_item(repo, fn_files[ordn], "const", hname[6:])
                        txt, rules = rewrite(raw, "const")
                        rules.add("R-auto-const")
                        lo = cur_line()
                        out.append(txt)
                        u.items.append(dict(kind="const", file=fn_files[ordn], path="(auto) " + hname[6:], name=hname[6:],
                                            props=u.props, sha_before=sha(raw), sha_after=sha(txt), rules=sorted(rules),
                                            line_lo=lo, line_hi=cur_line() - 1, contracted=False, auto=True, pure=True))
            continue
        d = s[3:].strip()
        if d.startswith("unit "):
            u.name = d.split()[1]
            i += 1
        elif d.startswith("props "):
            u.props = d.split()[1:]
            i += 1
        elif d.startswith("assume "):
            u.assumptions.append(d[7:].strip())
            i += 1
        elif d.startswith("item "):
            _, relfile, kind, name = d.split()[:4]
            raw = locate_item(repo, relfile, kind, name)
            txt, rules = rewrite(raw, kind)
            lo = cur_line()
            out.append(txt)
            u.items.append(dict(kind=kind, file=relfile, path=name, name=name, props=u.props,
                                sha_before=sha(raw), sha_after=sha(txt), rules=sorted(rules),
                                line_lo=lo, line_hi=cur_line() - 1, contracted=False))
            i += 1
        elif d.startswith("block "):
            mm = re.match(r"block\s+(\S+)\s+(.*?)\s+/(.*?)/\s+/(.*)/\s*$", d)
            if not mm:
                raise ExtractError("bad block directive: " + d)
            relfile, path, rx_a, rx_b = mm.group(1), mm.group(2), mm.group(3), mm.group(4)
            spec = dict(ret=None, sig="", loops={}, ats=[], rename=None, closures=[], iters={})
            i += 1
            section = None
            buf = []

            def flush_b():
                if section is None:
                    return
                txt = "\n".join(buf)
                if section[0] == "loop":
                    spec["loops"][section[1]] = txt
                elif section[0] == "at":
                    spec["ats"].append((section[1], section[2], txt, section[3]))
            while i < len(lines):
                t = lines[i].strip()
                if t.startswith("//@"):
                    dd = t[3:].strip()
                    if dd == "end":
                        flush_b()
                        i += 1
                        break
                    flush_b()
                    buf = []
                    if dd.startswith("loop "):
                        section = ("loop", int(dd.split()[1]))
                        lm = re.search(r"\biter\s+(\w+)", dd)
                        if lm:
                            spec["iters"][int(dd.split()[1])] = lm.group(1)
                    elif dd.startswith("at ") or dd.startswith("after "):
                        m2 = re.match(r"(at|after)\s+(\d+)\s+/(.*)/\s*$", dd)
                        section = ("at", int(m2.group(2)), m2.group(3), "before" if m2.group(1) == "at" else "after")
                    else:
                        raise ExtractError("bad directive in block: " + dd)
                else:
                    buf.append(lines[i])
                i += 1
            name, raw_fn = locate(repo, relfile, path)
            fm = mask(raw_fn)
            ma = re.search(rx_a, fm)
            mb = re.compile(rx_b).search(fm, ma.end()) if ma else None
            if not ma or not mb:
                raise ExtractError("lost anchor: block /%s/../%s/ not found in %s" % (rx_a, rx_b, path))
            raw = raw_fn[ma.start():mb.end()]
            txt, rules = rewrite(raw, "stmt")
            wrapped = splice_fn("fn vx_blk() {\n" + txt + "\n}", spec)
            txt = wrapped[wrapped.index("{") + 1:wrapped.rindex("}")]
            rules.add("R-block")
            rules.add("R-sig")
            u.clauses += sum(len(re.findall(r",\s*$", t, re.M)) for t in spec["loops"].values())
            lo = cur_line()
            out.append(txt)
            u.items.append(dict(kind="block", file=relfile, path=path + " [block]", name=name + "[block]", props=u.props,
                                sha_before=sha(raw), sha_after=sha(txt), rules=sorted(rules),
                                line_lo=lo, line_hi=cur_line() - 1, contracted=False))
        elif d.startswith("fn "):
            toks = d[3:].strip()
            props = u.props
            pm = re.search(r"\sprops((?:\s+C\d+)+)", toks)
            if pm:
                props = pm.group(1).split()
                toks = toks[:pm.start()] + toks[pm.end():]
            nopub = False
            if re.search(r"\snopub\b", toks):
                nopub = True
                toks = re.sub(r"\snopub\b", "", toks)
            rename = None
            am = re.search(r"\sas\s+(\w+)\s*$", toks)
            if am:
                rename = am.group(1)
                toks = toks[:am.start()]
            relfile, path = toks.split(None, 1)
            spec = dict(ret=None, sig="", loops={}, ats=[], rename=rename, closures=[], iters={}, opaques=[])
            i += 1
            section = None
            buf = []

            def flush():
                if section is None:
                    return
                txt = "\n".join(buf)
                if section[0] == "sig":
                    spec["sig"] = txt
                elif section[0] == "loop":
                    spec["loops"][section[1]] = txt
                elif section[0] == "at":
                    spec["ats"].append((section[1], section[2], txt, section[3]))
                elif section[0] == "closure":
                    spec["closures"].append((section[1], section[2], section[3], section[4], txt))
                elif section[0] == "opaque":
                    spec["opaques"].append((section[1], section[2], section[3], txt))
            while i < len(lines):
                t = lines[i].strip()
                if t.startswith("//@"):
                    dd = t[3:].strip()
                    if dd == "end":
                        flush()
                        i += 1
                        break
                    flush()
                    buf = []
                    if dd.startswith("ret "):
                        spec["ret"] = dd.split()[1]
                        section = None
                    elif dd == "sig":
                        section = ("sig",)
                    elif dd.startswith("loop "):
                        section = ("loop", int(dd.split()[1]))
                        lm = re.search(r"\biter\s+(\w+)", dd)
                        if lm:
                            spec["iters"][int(dd.split()[1])] = lm.group(1)
                    elif dd.startswith("closure "):
                        mm = re.match(r"closure\s+(\d+)\s+/(.*)/\s+(\w+)\s*:\s*(.+)$", dd)
                        if not mm:
                            raise ExtractError("bad directive: " + dd)
                        section = ("closure", int(mm.group(1)), mm.group(2), mm.group(3), mm.group(4))
                    elif dd.startswith("opaque "):
                        mm = re.match(r"opaque\s+(\d+)\s+/(.*)/\s+(.+)$", dd)
                        if not mm:
                            raise ExtractError("bad directive: " + dd)
                        section = ("opaque", int(mm.group(1)), mm.group(2), mm.group(3))
                    elif dd.startswith("at ") or dd.startswith("after "):
                        mm = re.match(r"(at|after)\s+(\d+)\s+/(.*)/\s*$", dd)
                        if not mm:
                            raise ExtractError("bad directive: " + dd)
                        section = ("at", int(mm.group(2)), mm.group(3),
                                   "before" if mm.group(1) == "at" else "after")
                    else:
                        raise ExtractError("bad directive in fn block: " + dd)
                else:
                    buf.append(lines[i])
                i += 1
            name, raw = locate(repo, relfile, path)
            txt, rules = rewrite(raw, "fn", nopub)
            ordn = len([x for x in u.items if x["kind"] == "fn" and not x.get("canary") and not x.get("auto")])
            if ordn in nodecr:
                # the code has a loop the unit gives no invariant/measure for (e.g. added by a change):
                # let Verus go on without a termination proof for it; its effects are havoc
                txt = "#[verifier::exec_allows_no_decreases_clause]\n" + txt
            plain = splice_fn(txt, spec)
            ctxt = None
            if canary:
                cspec = dict(spec)
                csig = spec["sig"]
                if re.search(r"\bensures\b", csig):
                    csig = re.sub(r"\bensures\b", "ensures false,", csig, count=1)
                else:
                    csig = csig + "\n    ensures false,"
                cspec["sig"] = csig
                cspec["rename"] = (rename or name) + "__canary"
                ctxt = splice_fn(txt, cspec)
            txt = plain
            rules.add("R-sig")
            if spec["opaques"]:
                rules.add("R-opaque")
            u.clauses += sum(len(re.findall(r",\s*$", t, re.M)) for t in
                             [spec["sig"]] + list(spec["loops"].values()))
            lo = cur_line()
            out.append(txt)
            u.items.append(dict(kind="fn", file=relfile, path=path, name=rename or name, props=props,
                                sha_before=sha(raw), sha_after=sha(txt), rules=sorted(rules),
                                unverified_expressions=sorted(set(spec.get("dropped", []))),
                                line_lo=lo, line_hi=cur_line() - 1, contracted=True))
            for hname in helpers.get(len([x for x in u.items if x["kind"] == "fn" and not x.get("canary") and not x.get("auto")]) - 1, []):
                if hname.startswith("const:"):
                    continue
                htxt, hrules, pure = auto_helper(repo, relfile, path, hname, nopub)
                lo = cur_line()
                out.append(htxt)
                u.items.append(dict(kind="fn", file=relfile, path="(auto) " + hname, name=hname, props=props,
                                    sha_before=sha(htxt), sha_after=sha(htxt), rules=sorted(hrules),
                                    line_lo=lo, line_hi=cur_line() - 1, contracted=False, auto=True, pure=pure))
            if ctxt is not None:
                lo = cur_line()
                out.append(ctxt)
                u.items.append(dict(kind="fn", file=relfile, path=path, name=(rename or name) + "__canary",
                                    props=props, sha_before=sha(raw), sha_after=sha(ctxt), rules=sorted(rules),
                                    line_lo=lo, line_hi=cur_line() - 1, contracted=False, canary=True))
        else:
            raise ExtractError("unknown directive: " + d)
    u.text = "\n".join(out)
    return u
