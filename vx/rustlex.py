"""Minimal Rust lexical helpers: comment/string masking, brace matching, item lookup.

Everything works on a *mask* of the source (same length, comments / string / char literal
contents blanked) so that brace matching and regexes never look inside comments or strings,
while text is always sliced from the original.
"""
import re


class LexError(Exception):
    pass


def mask(src):
    out = list(src)
    i, n = 0, len(src)

    def blank(a, b):
        for k in range(a, b):
            if out[k] != "\n":
                out[k] = " "

    while i < n:
        c = src[i]
        if src.startswith("//", i):
            j = src.find("\n", i)
            j = n if j < 0 else j
            blank(i, j)
            i = j
        elif src.startswith("/*", i):
            depth, j = 1, i + 2
            while j < n and depth:
                if src.startswith("/*", j):
                    depth += 1
                    j += 2
                elif src.startswith("*/", j):
                    depth -= 1
                    j += 2
                else:
                    j += 1
            blank(i, j)
            i = j
        elif c == '"' or (c in "rb" and re.match(r'(?:br|rb|r|b)#*"', src[i:i + 8]) and
                          (i == 0 or not (src[i - 1].isalnum() or src[i - 1] == "_"))):
            m = re.match(r'(br|rb|r|b)?(#*)"', src[i:i + 12])
            raw = m.group(1) in ("r", "br", "rb")
            hashes = m.group(2)
            j = i + m.end()
            if raw:
                end = src.find('"' + hashes, j)
                if end < 0:
                    raise LexError("unterminated raw string")
                blank(i + m.end(), end)
                i = end + 1 + len(hashes)
            else:
                while j < n and src[j] != '"':
                    j += 2 if src[j] == "\\" else 1
                blank(i + m.end(), j)
                i = j + 1
        elif c == "'":
            m = re.match(r"'(\\.[^']*|[^\\'])'", src[i:i + 12])
            if m:
                blank(i + 1, i + m.end() - 1)
                i += m.end()
            else:
                i += 1  # lifetime
        else:
            i += 1
    return "".join(out)


OPEN = "([{"
CLOSE = ")]}"


def match_close(msk, pos):
    """msk[pos] is an opening bracket; return index of its closing bracket."""
    depth = 0
    for i in range(pos, len(msk)):
        ch = msk[i]
        if ch in OPEN:
            depth += 1
        elif ch in CLOSE:
            depth -= 1
            if depth == 0:
                return i
    raise LexError("unbalanced bracket at %d" % pos)


def item_start(msk, src, kw_pos):
    """Extend an item start backwards over attributes, doc comments and visibility."""
    i = kw_pos
    while True:
        # skip whitespace backwards
        j = i
        while j > 0 and src[j - 1] in " \t\n":
            j -= 1
        # previous line a comment or attribute?
        line_start = src.rfind("\n", 0, j) + 1
        line = src[line_start:j]
        s = line.strip()
        if s.startswith("///") or s.startswith("//"):
            i = line_start
            continue
        if s.endswith("]"):
            # attribute possibly multi-line: find its '#['
            k = j - 1
            depth = 0
            while k >= 0:
                if msk[k] == "]":
                    depth += 1
                elif msk[k] == "[":
                    depth -= 1
                    if depth == 0:
                        break
                k -= 1
            if k > 0 and src[k - 1] == "#":
                i = k - 1
                continue
        break
    return i


VIS = r"(?:pub(?:\s*\([^)]*\))?\s+)?"


def find_block_item(src, msk, kind, name, lo=0, hi=None, depth_req=0):
    """Find `kind name` (kind in fn/struct/enum/trait/const/static/type/mod) between lo..hi at
    the bracket depth `depth_req` relative to lo.  Returns (start, end) of the whole item
    including leading attributes/docs/visibility."""
    hi = len(src) if hi is None else hi
    if kind == "fn":
        pat = re.compile(r"\b" + VIS + r"(?:const\s+|async\s+|unsafe\s+)*fn\s+" + re.escape(name) + r"\b")
    else:
        pat = re.compile(r"\b" + VIS + kind + r"\s+" + re.escape(name) + r"\b")
    hits = []
    for m in pat.finditer(msk, lo, hi):
        d = 0
        for ch in msk[lo:m.start()]:
            if ch in OPEN:
                d += 1
            elif ch in CLOSE:
                d -= 1
        if d != depth_req:
            continue
        # end of item: first ';' or balanced '{...}' at depth 0 after the keyword
        i = m.end()
        dd = 0
        end = None
        while i < hi:
            ch = msk[i]
            if ch in "([":
                dd += 1
            elif ch in ")]":
                dd -= 1
            elif ch == "{" and dd == 0:
                end = match_close(msk, i) + 1
                break
            elif ch == ";" and dd == 0:
                end = i + 1
                break
            i += 1
        if end is None:
            raise LexError("no end for %s %s" % (kind, name))
        if kind in ("struct",) and msk[end - 1] == ")":
            pass
        # tuple struct `struct X(..);`
        hits.append((item_start(msk, src, m.start()), end, m.start()))
    return hits


def norm(s):
    return re.sub(r"\s+", "", s)


def find_impl_blocks(src, msk, header):
    """All `impl ... {` blocks whose header (text between 'impl' and '{', whitespace-free)
    equals `header` (whitespace-free).  Returns list of (body_lo, body_hi)."""
    res = []
    for m in re.finditer(r"\bimpl\b", msk):
        d = 0
        for ch in msk[:m.start()]:
            if ch in OPEN:
                d += 1
            elif ch in CLOSE:
                d -= 1
        if d != 0:
            continue
        b = msk.find("{", m.end())
        if b < 0:
            continue
        h = norm(src[m.end():b])
        if h == norm(header):
            res.append((b + 1, match_close(msk, b)))
    return res


def find_trait_block(src, msk, name):
    for m in re.finditer(r"\btrait\s+" + re.escape(name) + r"\b", msk):
        b = msk.find("{", m.end())
        return (b + 1, match_close(msk, b))
    return None
