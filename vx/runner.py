"""Build + run one Verus unit; return structured result."""
import json
import os
import re
import shutil
import subprocess
import sys
import time

sys.path.insert(0, os.path.dirname(os.path.abspath(__file__)))
from extract import ExtractError, RULES, build_unit  # noqa: E402
from rustlex import LexError  # noqa: E402

VERIF = os.path.dirname(os.path.dirname(os.path.abspath(__file__)))
REFUTE = re.compile(r"postcondition|precondition|invariant|assert|overflow|underflow|index|bounds|"
                    r"decreases|termination|unreachable|panic|divi|arithmetic|shift|recommends|"
                    r"might fail|not satisf|cannot show", re.I)


def scan_assumptions(text):
    res = []
    for kw in ("external_body", "assume_specification", "admit()", "assume(", "external_type_specification",
               "external_fn_specification", "verifier::external"):
        n = text.count(kw)
        if n:
            res.append("%s x%d" % (kw, n))
    return res


def run_verus(path, workdir, threads=4, extra=()):
    cmd = ["verus", path, "--output-json", "--time", "--error-format=json",
           "--num-threads", str(threads)] + list(extra)
    t0 = time.time()
    p = subprocess.run(cmd, cwd=workdir, capture_output=True, text=True)
    dt = time.time() - t0
    res = None
    try:
        res = json.loads(p.stdout)
    except Exception:
        pass
    diags = []
    for ln in p.stderr.split("\n"):
        ln = ln.strip()
        if ln.startswith("{"):
            try:
                diags.append(json.loads(ln))
            except Exception:
                pass
    return p.returncode, res, diags, p.stderr, dt, " ".join(cmd)


def run_unit(unit_name, repo, workdir, canary=False):
    """returns dict(status=ok|fail|undecided, failures=[...], functions=int, ...)"""
    tpl = os.path.join(VERIF, "vx", "units", unit_name + ".rs")
    out = dict(unit=unit_name, status="undecided", failures=[], reason="", functions=0, verified=0,
               clauses=0, items=[], assumptions=[], smt_ms=0, wall_s=0.0, cmd="", fn_results={})
    helpers = {}
    nodecr = set()
    os.makedirs(workdir, exist_ok=True)
    gen = os.path.join(workdir, unit_name + ("_canary" if canary else "") + ".rs")
    for attempt in range(4):
        try:
            u = build_unit(tpl, repo, canary=canary, helpers=helpers, nodecr=nodecr)
        except (ExtractError, LexError) as e:
            out["reason"] = "extract: %s" % e
            return out
        open(gen, "w").write(u.text)
        rc, res, diags, stderr, dt, cmd = run_verus(gen, workdir)
        # a callee the unit does not list (helper introduced by a refactor): pull it in and retry
        missing = []
        for d in diags:
            mm = re.search(r"no method named `(\w+)` found|cannot find function `(\w+)`|no function or associated item named `(\w+)` found|cannot find value `([A-Z][A-Z0-9_]*)` in this scope", d.get("message", ""))
            if mm and d.get("level") == "error":
                name = mm.group(1) or mm.group(2) or mm.group(3) or ("const:" + mm.group(4))
                line = ([sp["line_start"] for sp in d.get("spans", []) if sp.get("is_primary")] or [0])[0]
                fns = [x for x in u.items if x["kind"] == "fn" and not x.get("canary") and not x.get("auto")]
                for ordn, it in enumerate(fns):
                    if it["line_lo"] <= line <= it["line_hi"]:
                        missing.append((ordn, name))
        newloops = set()
        for d in diags:
            if d.get("level") == "error" and "loop must have a decreases clause" in d.get("message", ""):
                line = ([sp["line_start"] for sp in d.get("spans", []) if sp.get("is_primary")] or [0])[0]
                fns = [x for x in u.items if x["kind"] == "fn" and not x.get("canary") and not x.get("auto")]
                for ordn, it in enumerate(fns):
                    if it["line_lo"] <= line <= it["line_hi"]:
                        newloops.add(ordn)
        if newloops - nodecr:
            nodecr |= newloops
            continue
        if not missing:
            break
        have = set(n for v in helpers.values() for n in v)
        for ordn, name in sorted(missing):
            if name not in have:
                helpers.setdefault(ordn, []).append(name)
                have.add(name)
    out["auto_helpers"] = sorted(set(n for v in helpers.values() for n in v))
    out["loops_without_contract"] = len(nodecr)
    out["wall_s"] = round(dt, 2)
    out["cmd"] = cmd
    out["items"] = u.items
    out["clauses"] = u.clauses
    out["props"] = u.props
    out["assumptions"] = u.assumptions + scan_assumptions(u.text)
    out["generated"] = gen
    errors = [d for d in diags if d.get("level") == "error"
              and not d.get("message", "").startswith("aborting due to")]
    if res is None or "verification-results" not in res:
        out["reason"] = "verus produced no result: " + (errors[0]["message"] if errors else stderr[-600:])
        out["raw"] = "\n".join(d.get("rendered") or "" for d in errors)[:4000]
        return out
    vr = res["verification-results"]
    if vr.get("encountered-vir-error"):
        out["reason"] = "verus front-end error: " + (errors[0]["message"] if errors else "?")
        out["raw"] = "\n".join(d.get("rendered") or "" for d in errors)[:4000]
        return out
    out["verified"] = vr.get("verified", 0)
    out["functions"] = vr.get("verified", 0) + vr.get("errors", 0)
    try:
        smt = res["times-ms"]["smt"]
        out["smt_ms"] = smt.get("total", 0)
        for mod in smt.get("smt-run-module-times", []):
            for fb in mod.get("function-breakdown", []):
                out["fn_results"][fb["function"]] = fb.get("success", True)
    except Exception:
        pass
    lines = u.text.split("\n")
    for d in errors:
        msg = d.get("message", "")
        spans = d.get("spans", [])
        prim = [s for s in spans if s.get("is_primary")] or spans
        line = prim[0]["line_start"] if prim else 0
        # function = item containing any span line; else nearest preceding `fn`
        fn = None
        props = None
        item_idx = None
        for s in spans:
            for ix, it in enumerate(u.items):
                if it["kind"] == "fn" and it["line_lo"] <= s["line_start"] <= it["line_hi"]:
                    fn, props, item_idx = it["name"], it["props"], ix
        if fn is None:
            for k in range(min(line, len(lines)) - 1, -1, -1):
                m = re.search(r"\bfn\s+(\w+)", lines[k])
                if m:
                    fn = m.group(1)
                    break
        clause = ""
        if prim and prim[0].get("text"):
            t = prim[0]["text"][0]
            clause = t["text"][t["highlight_start"] - 1:t["highlight_end"] - 1].strip()
        kind = "refuted" if REFUTE.search(msg) else "tool"
        if re.search(r"rlimit|resource limit|timed? ?out|not supported|unsupported", msg, re.I):
            kind = "tool"
        out["failures"].append(dict(
            obligation="%s::%s::%s[%s]" % (unit_name, fn or "?", msg, clause[:120]),
            function=fn, props=props, item_idx=item_idx, message=msg, clause=clause, line=line, kind=kind,
            rendered=(d.get("rendered") or "")[:3000]))
    impure = [it["name"] for it in u.items if it.get("auto") and not it.get("pure")]
    if impure and out["failures"]:
        for f in out["failures"]:
            f["kind"] = "tool"
        out["reason"] = "code now calls helper(s) %s that have no contract in the unit (needs contract, not a refutation)" % impure
    if not out["failures"] and vr.get("success"):
        out["status"] = "ok"
    elif any(f["kind"] == "refuted" for f in out["failures"]):
        # refutations stand even if another function ran into a tool limit
        out["status"] = "fail"
        out["tool_limits"] = [f["obligation"] for f in out["failures"] if f["kind"] == "tool"]
        out["tool_limit_items"] = [f["item_idx"] for f in out["failures"] if f["kind"] == "tool"]
        out["failures"] = [f for f in out["failures"] if f["kind"] == "refuted"]
    else:
        out["status"] = "undecided"
        out["reason"] = out["reason"] or "; ".join(f["message"] for f in out["failures"] if f["kind"] == "tool") or "verus failed"
    return out


if __name__ == "__main__":
    import argparse
    ap = argparse.ArgumentParser()
    ap.add_argument("unit")
    ap.add_argument("--repo", default="/repo")
    ap.add_argument("--work", default="/var/tmp/vx-dev")
    ap.add_argument("--canary", action="store_true")
    a = ap.parse_args()
    r = run_unit(a.unit, a.repo, a.work, canary=a.canary)
    print("status:", r["status"], r["reason"])
    print("functions: %d verified: %d clauses: %d wall: %ss smt: %sms" %
          (r["functions"], r["verified"], r["clauses"], r["wall_s"], r["smt_ms"]))
    if r.get("raw"):
        print(r["raw"])
    for f in r["failures"]:
        print("-" * 70)
        print(f["kind"], f["obligation"])
        print(f["rendered"])
