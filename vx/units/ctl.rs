//@ unit ctl
//@ props C04 C05 C06 C07 C16
//@ assume ZXSpecs field values returned by ZXMachine::specs() are assumed here (spec `specs_ok`) and proved on the real lazy_static tables by Kani harness K-core::specs_48k/specs_128k
//@ assume ZXMachine::bank_is_contended == {0} / {1,3,5,7}: assumed here (closure with pattern is outside the Verus subset), proved by Kani harness K-core::bank_is_contended
//@ assume tape/mixer/screen/border calls inside wait_internal/new_frame/write_internal/write_7ffd/set_border_color are external: each takes &mut to its own struct only (frame by ownership); their behaviour is the subject of C08/C09/C11/C19 units
//@ assume ZXMemory::ram_page_data_mut / rom_page_data_mut (return &mut of a Vec range; vstd has no spec for Vec::index_mut over ranges) are not in this unit: their slice range is proved by Kani harness K-core::memory::page_slices
//@ assume trait dispatch: the methods of `impl Z80Bus for ZXController` are verified as inherent methods (R-inherent); that the CPU calls exactly these through the trait is Rust semantics, not re-proved
//@ assume Host/IoExtender/DebugInterface implementations are arbitrary (uninterpreted); IoExtender::extends_port is treated as a pure function of (&self, port)
//@ assume (C16) Z80::emulate, fastload::tap::fast_load_tap and ZXTape::can_fast_load are external: each is taken to be a *function* of the machine state it is handed (uninterpreted spec fns cpu_step, fast_load, tape_can_fast_load) - what safe Rust without a nondeterminism source gives (scan nondeterminism_sources); what they compute is C01-C03 / C10
//@ assume (C16) the machine view `mview` leaves out exactly `passed_frames`; that no machine step reads that counter is the scan passed_frames_access together with the whole-struct postcondition of reset_frame_counter
//@ assume (C16) bitflags-generated EmulationEvents::{is_empty, contains} are external (macro code): pure functions of the bits; Host::EmulationStopwatch is arbitrary: `measure` may return any Duration at any call
//@ assume external device stubs (ZXScreen, ZXBorder, ZXMixer, ZXTape) carry ghost call logs: a call appends exactly its own entry; nothing is assumed about what the devices do with it
use vstd::prelude::*;
use core::time::Duration;

verus! {

// ======================================================================
// Statement-level specification (written from properties C04/C05/C06/C07)
// ======================================================================
pub open spec fn is48(m: ZXMachine) -> bool { m == ZXMachine::Sinclair48K }

/// C05: frame length
pub open spec fn frame_len(m: ZXMachine) -> int { if is48(m) { 69888 } else { 70908 } }
/// C04: T0 and line length
pub open spec fn t0(m: ZXMachine) -> int { if is48(m) { 14335 } else { 14361 } }
pub open spec fn tline(m: ZXMachine) -> int { if is48(m) { 224 } else { 228 } }
pub open spec fn pattern(i: int) -> int { if 0 <= i < 6 { 6 - i } else { 0 } }

/// C04: ULA delay at in-frame T-state `t` (pattern restarts on each picture line, see DESIGN §4.C04)
pub open spec fn ula_delay(m: ZXMachine, t: int) -> int {
    if t < t0(m) || t >= t0(m) + 192 * tline(m) {
        0
    } else {
        let o = (t - t0(m)) % tline(m);
        if o >= 128 { 0 } else { pattern(o % 8) }
    }
}

/// C04: contended RAM banks: 48K bank 0 (= 0x4000-0x7FFF), 128K banks 1,3,5,7
pub open spec fn contended_bank(m: ZXMachine, bank: int) -> bool {
    if is48(m) { bank == 0 } else { bank == 1 || bank == 3 || bank == 5 || bank == 7 }
}

pub open spec fn specs_ok(m: ZXMachine, s: ZXSpecs) -> bool {
    &&& s.clocks_first_pixel == t0(m) + 1
    &&& s.clocks_line == tline(m)
    &&& s.clocks_screen_row == 128
    &&& s.lines_screen == 192
    &&& s.clocks_frame == frame_len(m)
    &&& s.interrupt_length == 32
    &&& s.contention_pattern@ == seq![6usize, 5, 4, 3, 2, 1, 0, 0]
    &&& s.clocks_left_border == 24
    &&& s.clocks_ula_read_shift == 2
    &&& s.rom_pages == (if is48(m) { 1u8 } else { 2u8 })
}

// ======================================================================
// Real data types (extracted)
// ======================================================================
//@ item rustzx-core/src/zx/machine/specs.rs struct ZXSpecs
//@ item rustzx-core/src/zx/machine/mod.rs enum ZXMachine
//@ item rustzx-core/src/zx/memory.rs const PAGE_SIZE
//@ item rustzx-core/src/zx/memory.rs const SIZE_16K
//@ item rustzx-core/src/zx/memory.rs const SIZE_32K
//@ item rustzx-core/src/zx/memory.rs const SIZE_48K
//@ item rustzx-core/src/zx/memory.rs const SIZE_128K
//@ item rustzx-core/src/zx/memory.rs const MEM_BLOCKS
//@ item rustzx-core/src/zx/memory.rs enum Page
//@ item rustzx-core/src/zx/memory.rs struct ZXMemory
//@ item rustzx-core/src/zx/memory.rs enum RomType
//@ item rustzx-core/src/zx/memory.rs enum RamType

impl ZXMachine {
    /// assumed (lazy_static is outside the Verus subset); proved by Kani on the real tables
    #[verifier::external_body]
    pub fn specs(self) -> (r: &'static ZXSpecs)
        ensures specs_ok(self, *r),
    {
        unimplemented!()
    }

    /// assumed; proved by Kani (exhaustive in `page`)
    #[verifier::external_body]
    pub fn bank_is_contended(self, page: usize) -> (r: bool)
        ensures r == contended_bank(self, page as int),
    {
        unimplemented!()
    }

//@ fn rustzx-core/src/zx/machine/mod.rs impl ZXMachine::contention_clocks props C04
//@ ret r
//@ sig
        ensures r as int == ula_delay(self, clocks as int), r <= 6,
//@ end

//@ fn rustzx-core/src/zx/machine/mod.rs impl ZXMachine::port_is_contended props C04
//@ ret r
//@ sig
        ensures r == (port & 1 == 0),
//@ end
}

// ---- std functions without a vstd spec (trusted, enumerated) ----
pub assume_specification<T, U, F: FnOnce(T) -> U>[ Option::<T>::map_or ](o: Option<T>, default: U, f: F) -> (r: U)
    requires o is Some ==> f.requires((o->Some_0,)),
    ensures
        o is None ==> r == default,
        o is Some ==> f.ensures((o->Some_0,), r),
;

// ======================================================================
// ZXMemory: view, well-formedness, C06 memory map
// ======================================================================
pub open spec fn page_ok(rom_len: int, ram_len: int, p: Page) -> bool {
    match p {
        Page::Ram(n) => (n as int + 1) * 16384 <= ram_len,
        Page::Rom(n) => (n as int + 1) * 16384 <= rom_len,
    }
}

impl ZXMemory {
    pub open spec fn wf(&self) -> bool {
        &&& (self.rom@.len() == 16384 || self.rom@.len() == 32768)
        &&& (self.ram@.len() == 3 * 16384 || self.ram@.len() == 8 * 16384)
        &&& forall|b: int| 0 <= b < 4 ==> page_ok(self.rom@.len() as int, self.ram@.len() as int, #[trigger] self.map@[b])
    }

    /// the (page, offset) cell an address denotes under the current map
    pub open spec fn cell(&self, addr: u16) -> (Page, int) {
        (self.map@[addr as int / 16384], addr as int % 16384)
    }

    /// CPU-visible byte at `addr`
    pub open spec fn peek(&self, addr: u16) -> u8 {
        match self.cell(addr).0 {
            Page::Rom(p) => self.rom@[p as int * 16384 + self.cell(addr).1],
            Page::Ram(p) => self.ram@[p as int * 16384 + self.cell(addr).1],
        }
    }

    pub open spec fn is_ram(&self, addr: u16) -> bool {
        self.cell(addr).0 is Ram
    }

//@ fn rustzx-core/src/zx/memory.rs impl ZXMemory::new props C06
//@ ret r
//@ sig
        // the power-on memory map of each machine
        ensures r.wf(),
            ram_type is K48 ==> r.ram@.len() == 3 * 16384 && r.map@ == seq![Page::Rom(0), Page::Ram(0), Page::Ram(1), Page::Ram(2)],
            ram_type is K128 ==> r.ram@.len() == 8 * 16384 && r.map@ == seq![Page::Rom(0), Page::Ram(5), Page::Ram(2), Page::Ram(0)],
            rom_type is K16 ==> r.rom@.len() == 16384, rom_type is K32 ==> r.rom@.len() == 32768,
//@ end

//@ fn rustzx-core/src/zx/memory.rs impl ZXMemory::paged_address props C06
//@ ret r
//@ sig
        requires self.wf(),
        ensures r.0 == self.cell(addr).0, r.1 as int == self.cell(addr).1, r.1 < 16384,
            page_ok(self.rom@.len() as int, self.ram@.len() as int, r.0),
//@ end

//@ fn rustzx-core/src/zx/memory.rs impl ZXMemory::read props C06
//@ ret r
//@ sig
        requires self.wf(),
        ensures r == self.peek(addr),
//@ end

//@ fn rustzx-core/src/zx/memory.rs impl ZXMemory::write props C06
//@ sig
        requires old(self).wf(),
        ensures
            final(self).wf(),
            final(self).map == old(self).map,
            final(self).rom@ == old(self).rom@,
            final(self).ram@.len() == old(self).ram@.len(),
            // ROM window ignores writes
            !old(self).is_ram(addr) ==> final(self).ram@ == old(self).ram@,
            // a RAM write changes exactly the addressed cell ...
            old(self).is_ram(addr) ==> final(self).ram@ == old(self).ram@.update(
                (old(self).cell(addr).0->Ram_0) as int * 16384 + old(self).cell(addr).1, value),
            // ... which is read back through every window mapping the same bank and through no other
            forall|b: u16| #[trigger] final(self).peek(b) == (
                if old(self).is_ram(addr) && old(self).cell(b) == old(self).cell(addr) { value }
                else { old(self).peek(b) }),
//@ end

//@ fn rustzx-core/src/zx/memory.rs impl ZXMemory::remap props C06
//@ ret r
//@ sig
        requires old(self).wf(), block < 4,
            page_ok(old(self).rom@.len() as int, old(self).ram@.len() as int, page),
        ensures
            r.wf(),
            r.rom@ == old(self).rom@, r.ram@ == old(self).ram@,
            r.map@ == old(self).map@.update(block as int, page),
            *final(self) == *final(r),
//@ end

//@ fn rustzx-core/src/zx/memory.rs impl ZXMemory::get_bank_type props C06
//@ ret r
//@ sig
        requires block < 4,
        ensures r == self.map@[block as int],
//@ end

//@ fn rustzx-core/src/zx/memory.rs impl ZXMemory::ram_page_data props C06 C13 C15
//@ ret r
//@ sig
        requires (page as int + 1) * 16384 <= self.ram@.len(),
        // exactly the 16 KiB of RAM bank `page`
        ensures r@ == self.ram@.subrange(page as int * 16384, page as int * 16384 + 16384),
//@ end

//@ fn rustzx-core/src/zx/memory.rs impl ZXMemory::get_page props C06 C04
//@ ret r
//@ sig
        ensures r == self.cell(addr).0,
//@ end
}

// ======================================================================
// External devices (assumed frames: each touches only its own struct)
// ======================================================================
#[verifier::external_body]
#[verifier::reject_recursive_types(FB)]
pub struct ZXScreen<FB> { _p: core::marker::PhantomData<FB> }
#[verifier::external_body]
#[verifier::reject_recursive_types(FB)]
pub struct ZXBorder<FB> { _p: core::marker::PhantomData<FB> }
#[verifier::external_body]
#[verifier::reject_recursive_types(A)]
pub struct ZXTape<A> { _p: core::marker::PhantomData<A> }
#[verifier::external_body]
pub struct Error { _p: u8 }
pub type Result<T> = core::result::Result<T, Error>;
/// bitflags!-generated struct (macro code is outside the subset): its one field, R-ext shape only
#[derive(Clone, Copy)]
pub struct EmulationEvents { pub bits: u8 }
#[verifier::external_body]
pub struct AymPrecise { _p: u8 }
#[verifier::external_body]
pub struct MixerRest { _p: u8 }

/// ghost logs of the calls that reach the external devices (what the devices do with them is the
/// subject of the screen / border / mixer / tape units; that the controller makes them, in order
/// and with these arguments, is proved here)
pub enum ScreenCall { NewFrame, Clocks(usize), Bank(usize) }
pub enum BorderCall { NewFrame, Set(usize, ZXColor) }
pub enum MixCall { NewFrame, Process }

/// the border-colour changes / display-bank switches among the logged calls (frame-boundary
/// notifications dropped): what the timing functions must leave alone
pub open spec fn border_sets(c: Seq<BorderCall>) -> Seq<(usize, ZXColor)>
    decreases c.len(),
{
    if c.len() == 0 { Seq::empty() } else {
        match c.last() {
            BorderCall::Set(t, col) => border_sets(c.drop_last()).push((t, col)),
            BorderCall::NewFrame => border_sets(c.drop_last()),
        }
    }
}
pub open spec fn screen_banks(c: Seq<ScreenCall>) -> Seq<usize>
    decreases c.len(),
{
    if c.len() == 0 { Seq::empty() } else {
        match c.last() {
            ScreenCall::Bank(b) => screen_banks(c.drop_last()).push(b),
            _ => screen_banks(c.drop_last()),
        }
    }
}
/// total time of in-frame clock `c` of frame number `pf`
pub open spec fn at_time(pf: int, len: int, c: usize) -> int { pf * len + c as int }
pub broadcast proof fn lemma_border_sets_push(c: Seq<BorderCall>, x: BorderCall)
    ensures #[trigger] border_sets(c.push(x)) == (match x {
        BorderCall::Set(t, col) => border_sets(c).push((t, col)),
        BorderCall::NewFrame => border_sets(c) }),
{
    assert(c.push(x).drop_last() =~= c);
}
pub broadcast proof fn lemma_screen_banks_push(c: Seq<ScreenCall>, x: ScreenCall)
    ensures #[trigger] screen_banks(c.push(x)) == (match x {
        ScreenCall::Bank(b) => screen_banks(c).push(b),
        _ => screen_banks(c) }),
{
    assert(c.push(x).drop_last() =~= c);
}
pub broadcast group group_call_logs { lemma_border_sets_push, lemma_screen_banks_push }

impl<FB> ZXScreen<FB> {
    /// ghost log of `update(rel_addr, bank, data)` calls (the shadow-of-display-memory feed, C08)
    pub uninterp spec fn updates(&self) -> Seq<(u16, usize, u8)>;
    pub uninterp spec fn calls(&self) -> Seq<ScreenCall>;
    #[verifier::external_body]
    pub fn new_frame(&mut self)
        ensures final(self).updates() == old(self).updates(), final(self).calls() == old(self).calls().push(ScreenCall::NewFrame),
    { unimplemented!() }
    #[verifier::external_body]
    pub fn process_clocks(&mut self, clocks: usize)
        ensures final(self).updates() == old(self).updates(), final(self).calls() == old(self).calls().push(ScreenCall::Clocks(clocks)),
    { unimplemented!() }
    #[verifier::external_body]
    pub fn switch_bank(&mut self, bank: usize)
        ensures final(self).updates() == old(self).updates(), final(self).calls() == old(self).calls().push(ScreenCall::Bank(bank)),
    { unimplemented!() }
    #[verifier::external_body]
    pub fn update(&mut self, rel_addr: u16, bank: usize, data: u8)
        ensures final(self).updates() == old(self).updates().push((rel_addr, bank, data)), final(self).calls() == old(self).calls(),
    { unimplemented!() }
}
impl<FB> ZXBorder<FB> {
    pub uninterp spec fn calls(&self) -> Seq<BorderCall>;
    #[verifier::external_body]
    pub fn new_frame(&mut self)
        ensures final(self).calls() == old(self).calls().push(BorderCall::NewFrame),
    { unimplemented!() }
    #[verifier::external_body]
    pub fn set_border(&mut self, clocks: usize, color: ZXColor)
        ensures final(self).calls() == old(self).calls().push(BorderCall::Set(clocks, color)),
    { unimplemented!() }
}
impl<A> ZXTape<A> {
    /// ghost: clock counts handed to the tape, and what the tape will answer to the next one
    pub uninterp spec fn calls(&self) -> Seq<usize>;
    pub uninterp spec fn answer(&self, clocks: usize) -> core::result::Result<(), Error>;
    #[verifier::external_body]
    pub fn process_clocks(&mut self, clocks: usize) -> (r: core::result::Result<(), Error>)
        ensures final(self).calls() == old(self).calls().push(clocks), r == old(self).answer(clocks),
    { unimplemented!() }
    /// ghost: the EAR level the tape currently presents (what it is, is C11)
    pub uninterp spec fn ear(&self) -> bool;
    #[verifier::external_body]
    pub fn current_bit(&self) -> (r: bool)
        ensures r == self.ear(),
    { unimplemented!() }
}
impl AymPrecise {
    /// ghost log of register writes that reached the generator
    pub uninterp spec fn writes(&self) -> Seq<(u8, u8)>;
    #[verifier::external_body]
    pub fn write_register(&mut self, reg: u8, data: u8)
        ensures final(self).writes() == old(self).writes().push((reg, data)),
    { unimplemented!() }
}

/// Host-side traits: declarations with ghost call log (R-ext)
pub trait IoExtender {
    spec fn claims(&self, port: u16) -> bool;
    /// ghost log of (is_write, port, data) calls that reached the extender
    spec fn log(&self) -> Seq<(bool, u16, u8)>;
    fn write(&mut self, port: u16, data: u8)
        ensures final(self).log() == old(self).log().push((true, port, data)),
            forall|p: u16| final(self).claims(p) == old(self).claims(p);
    fn read(&mut self, port: u16) -> (r: u8)
        ensures final(self).log() == old(self).log().push((false, port, r)),
            forall|p: u16| final(self).claims(p) == old(self).claims(p);
    fn extends_port(&self, port: u16) -> (r: bool)
        ensures r == self.claims(port);
}
pub trait DebugInterface {
    fn check_pc_breakpoint(&mut self, addr: u16) -> bool;
}
pub trait Stopwatch: Sized {
    fn new() -> Self;
    fn measure(&self) -> Duration;
}
pub trait Host {
    type EmulationStopwatch: Stopwatch;
    type TapeAsset;
    type FrameBuffer;
    type IoExtender: IoExtender;
    type DebugInterface: DebugInterface;
}

//@ item rustzx-core/src/zx/video/colors.rs enum ZXColor
//@ item rustzx-core/src/zx/sound/beeper.rs struct ZXBeeper
//@ item rustzx-core/src/zx/sound/ay.rs struct ZXAyChip
//@ item rustzx-core/src/zx/joy/kempston.rs struct KempstonJoy
//@ item rustzx-core/src/zx/mouse/kempston.rs struct KempstonMouse

/// ZXMixer: only the two device fields the controller touches are modelled; the queue /
/// float state is `rest` (R-ext: struct shape, no code)
pub struct ZXMixer {
    pub beeper: ZXBeeper,
    pub ay: ZXAyChip,
    pub rest: MixerRest,
}
impl ZXMixer {
    pub uninterp spec fn calls(&self) -> Seq<MixCall>;
    #[verifier::external_body]
    pub fn process(&mut self, current_time: f64)
        // (generating samples advances the AY generator's internal counters: only the port-visible
        // register file and the log of register writes are kept)
        ensures final(self).beeper == old(self).beeper, final(self).ay.same_port_state(&old(self).ay),
            final(self).calls() == old(self).calls().push(MixCall::Process),
    { unimplemented!() }
    #[verifier::external_body]
    pub fn new_frame(&mut self)
        ensures final(self).beeper == old(self).beeper, final(self).ay.same_port_state(&old(self).ay),
            final(self).calls() == old(self).calls().push(MixCall::NewFrame),
    { unimplemented!() }
}

impl ZXColor {
    pub open spec fn of_bits(b: u8) -> ZXColor {
        if b == 0 { ZXColor::Black } else if b == 1 { ZXColor::Blue } else if b == 2 { ZXColor::Red }
        else if b == 3 { ZXColor::Purple } else if b == 4 { ZXColor::Green } else if b == 5 { ZXColor::Cyan }
        else if b == 6 { ZXColor::Yellow } else { ZXColor::White }
    }
//@ fn rustzx-core/src/zx/video/colors.rs impl ZXColor::from_bits props C07 C09 C15
//@ ret r
//@ sig
        requires bits <= 7,
        ensures r == ZXColor::of_bits(bits),
//@ end
}

impl ZXBeeper {
//@ fn rustzx-core/src/zx/sound/beeper.rs impl ZXBeeper::change_state props C07 C19
//@ sig
        ensures final(self).ear == ear, final(self).mic == mic,
//@ end
}

impl ZXAyChip {
    pub open spec fn wf(&self) -> bool { self.current_reg < 16 }
    /// everything the CPU can observe through the ports, plus the log of writes that reached the generator
    pub open spec fn same_port_state(&self, o: &Self) -> bool {
        self.regs == o.regs && self.current_reg == o.current_reg && self.ay.writes() == o.ay.writes()
    }
//@ fn rustzx-core/src/zx/sound/ay.rs impl ZXAyChip::select_reg props C07 C18
//@ sig
        ensures final(self).wf(), final(self).current_reg == (reg & 0x0F) as usize, reg as int % 16 == (reg & 0x0F) as int,
            final(self).regs == old(self).regs, final(self).ay == old(self).ay,
//@ at 1 /self\.current_reg/
        proof { assert((reg & 0x0F) < 16 && (reg & 0x0F) == reg % 16) by(bit_vector); }
//@ end
//@ fn rustzx-core/src/zx/sound/ay.rs impl ZXAyChip::write props C07 C18
//@ sig
        requires old(self).wf(),
        ensures final(self).wf(), final(self).current_reg == old(self).current_reg,
            final(self).regs@ == old(self).regs@.update(old(self).current_reg as int, data),
            // C18: the write reaches the sound generator, with the selected register number
            final(self).ay.writes() == old(self).ay.writes().push((old(self).current_reg as u8, data)),
//@ end
//@ fn rustzx-core/src/zx/sound/ay.rs impl ZXAyChip::set_regs props C14 C15
//@ sig
        requires regs@.len() >= 16,
        ensures final(self).regs@ == regs@.subrange(0, 16), final(self).current_reg == old(self).current_reg,
            // every register value is also handed to the sound generator (ghost write log)
            final(self).ay.writes() == old(self).ay.writes() + Seq::new(16, |i: int| (i as u8, regs@[i])),
//@ loop 0 iter it
            invariant
                self.regs@ == regs@.subrange(0, 16), self.current_reg == old(self).current_reg, regs@.len() >= 16,
                self.ay.writes() == old(self).ay.writes() + Seq::new(it.index@ as nat, |i: int| (i as u8, regs@[i])),
//@ end

//@ fn rustzx-core/src/zx/sound/ay.rs impl ZXAyChip::read props C07 C18
//@ ret r
//@ sig
        requires self.wf(),
        ensures r == self.regs@[self.current_reg as int],
//@ end
}

impl KempstonJoy {
//@ fn rustzx-core/src/zx/joy/kempston.rs impl KempstonJoy::read props C07 C17
//@ ret r
//@ sig
        ensures r == self.state,
//@ end
}

/// time after a contended wait of `n` T-states starting at total time `t`
#[verifier::opaque]
pub open spec fn c_then(m: ZXMachine, t: int, n: int) -> int {
    t + ula_delay(m, t % frame_len(m)) + n
}

/// C04: end time of a port cycle that starts at total time `t`:
/// N:1,C:3 / N:4 / C:1,C:3 / C:1,C:1,C:1,C:1
pub open spec fn io_end(m: ZXMachine, hi_contended: bool, even: bool, t: int) -> int {
    let t1 = if hi_contended { c_then(m, t, 1) } else { t + 1 };
    if even {
        c_then(m, t1, 3)
    } else if hi_contended {
        c_then(m, c_then(m, c_then(m, t1, 1), 1), 1)
    } else {
        t1 + 3
    }
}

/// C04: `n` single internal T-states, each carrying the same (contended or not) address
pub open spec fn loop_time(m: ZXMachine, contended: bool, t: int, n: nat) -> int
    decreases n,
{
    if n == 0 { t } else { loop_time(m, contended, if contended { c_then(m, t, 1) } else { t + 1 }, (n - 1) as nat) }
}

pub proof fn lemma_total_mod(pf: int, f: int, fc: int)
    requires 0 <= fc < f, 0 <= pf,
    ensures (pf * f + fc) % f == fc,
{
    vstd::arithmetic::div_mod::lemma_fundamental_div_mod_converse(pf * f + fc, f, pf, fc);
}

/// C08 statement: offset of the display byte holding pixel row `y`, byte column `xb`
pub open spec fn display_offset(y: int, xb: int) -> int {
    ((y / 64) * 2048) + ((y % 8) * 256) + (((y / 8) % 8) * 32) + xb
}
//@ item rustzx-core/src/zx/constants.rs const CANVAS_HEIGHT
//@ item rustzx-core/src/zx/constants.rs const CLOCKS_PER_COL
//@ item rustzx-core/src/zx/constants.rs const CANVAS_WIDTH
//@ fn rustzx-core/src/utils/screen.rs bitmap_line_addr props C07 C08
//@ ret r
//@ sig
    requires line < 192,
    ensures r as int == 0x4000 + display_offset(line as int, 0), r & 0x1F == 0, r < 0x5800,
//@ at 1 /\(0x4000 \|/
    proof {
        let l = line;
        assert(l < 192 ==> ((0x4000usize | (l << 5) & 0x1800 | (l << 8) & 0x0700 | (l << 2) & 0x00E0) as u16) as int
            == 0x4000 + ((l / 64) * 2048) + ((l % 8) * 256) + (((l / 8) % 8) * 32)) by(bit_vector);
        assert(l < 192 ==> ((0x4000usize | (l << 5) & 0x1800 | (l << 8) & 0x0700 | (l << 2) & 0x00E0) as u16) & 0x1F == 0) by(bit_vector);
        assert(l < 192 ==> ((0x4000usize | (l << 5) & 0x1800 | (l << 8) & 0x0700 | (l << 2) & 0x00E0) as u16) < 0x5800) by(bit_vector);
    }
//@ end

// ======================================================================
// ZXController
// ======================================================================
//@ item rustzx-core/src/zx/controller.rs struct ZXController

/// R-shim: u16::to_le_bytes (ASSUMED: byte 0 = low, byte 1 = high)
#[verifier::external_body]
pub fn vx_u16_to_le_bytes(x: u16) -> (r: [u8; 2])
    ensures r[0] == (x & 0xff) as u8, r[1] == (x >> 8) as u8,
{
    x.to_le_bytes()
}

/// R-opaque stand-in for `self.io_extender.as_mut().and_then(|e| e.extends_port(port).then(|| e.read(port)))`
/// (Option::and_then / bool::then with a closure that captures `&mut` are outside the Verus subset):
/// ASSUMED to ask the extender whether it claims the port and to read it exactly when it does.
#[verifier::external_body]
pub fn vx_ext_read<E: IoExtender>(ext: &mut Option<E>, port: u16) -> (r: Option<u8>)
    ensures
        ((*old(ext)) is Some && (*old(ext))->Some_0.claims(port)) ==> r is Some && (*final(ext)) is Some
            && (*final(ext))->Some_0.log() == (*old(ext))->Some_0.log().push((false, port, r->Some_0))
            && (forall|p: u16| (*final(ext))->Some_0.claims(p) == (*old(ext))->Some_0.claims(p)),
        !((*old(ext)) is Some && (*old(ext))->Some_0.claims(port)) ==> r is None && *final(ext) == *old(ext),
{ unimplemented!() }

/// C07/C17: AND of the half-rows whose selector bit (bit n of the port's high byte) is zero, rows < n
pub open spec fn rows_and(h: u8, k0: [u8; 8], k1: [u8; 8], k2: [u8; 8], n: nat) -> u8
    decreases n,
{
    if n == 0 { 0xFFu8 } else {
        let i = (n - 1) as int;
        let rest = rows_and(h, k0, k1, k2, (n - 1) as nat);
        if (h >> (i as usize)) & 0x01 == 0 { rest & (k0@[i] & k1@[i] & k2@[i]) } else { rest }
    }
}
pub open spec fn sel_mouse_buttons(port: u16) -> bool { port & 0x0121 == 0x0001 }
pub open spec fn sel_mouse_x(port: u16) -> bool { port & 0x0521 == 0x0101 }
pub open spec fn sel_mouse_y(port: u16) -> bool { port & 0x0521 == 0x0501 }
pub open spec fn sel_kempston(port: u16) -> bool { port & 0x00E0 == 0 }

/// C07 device-select predicates, literally from the statement
pub open spec fn sel_ula(port: u16) -> bool { port & 0x0001 == 0 }
pub open spec fn sel_paging(m: ZXMachine, port: u16) -> bool { !is48(m) && port & 0x8002 == 0 }
pub open spec fn sel_ay_select(port: u16) -> bool { port & 0xC002 == 0xC000 }
pub open spec fn sel_ay_data(port: u16) -> bool { port & 0xC002 == 0x8000 }

impl<H: Host> ZXController<H> {
    /// total emulated time in T-states (C05)
    pub open spec fn total(&self) -> int {
        self.passed_frames as int * frame_len(self.machine) + self.frame_clocks as int
    }

    pub open spec fn map_is(&self, a: Page, b: Page, c: Page, d: Page) -> bool {
        self.memory.map@[0] == a && self.memory.map@[1] == b && self.memory.map@[2] == c
            && self.memory.map@[3] == d
    }

    /// C06 paging invariant: the memory map is a function of the machine and the paging latch
    /// (`lock`: also require paging_enabled <=> bit 5 of the latch clear)
    pub open spec fn paging_inv_l(&self, lock: bool) -> bool {
        if is48(self.machine) {
            &&& self.map_is(Page::Rom(0), Page::Ram(0), Page::Ram(1), Page::Ram(2))
            &&& !self.paging_enabled
            &&& self.memory.rom@.len() == 16384 && self.memory.ram@.len() == 3 * 16384
        } else {
            &&& self.map_is(Page::Rom((self.current_port_7ffd >> 4) & 1), Page::Ram(5), Page::Ram(2),
                    Page::Ram(self.current_port_7ffd & 7))
            &&& (lock ==> (self.paging_enabled <==> self.current_port_7ffd & 0x20 == 0))
            &&& self.memory.rom@.len() == 32768 && self.memory.ram@.len() == 8 * 16384
        }
    }
    pub open spec fn paging_inv(&self) -> bool { self.paging_inv_l(true) }

    pub open spec fn inv_l(&self, lock: bool) -> bool {
        &&& self.memory.wf()
        &&& self.paging_inv_l(lock)
        &&& (self.frame_clocks as int) < frame_len(self.machine)
        &&& self.mixer.ay.wf()
    }
    pub open spec fn inv(&self) -> bool { self.inv_l(true) }

    /// room for `k` more frame-counter increments (machine arithmetic is not mathematical:
    /// `passed_frames += 1` must not overflow; the counter is reset on every emulate_frames call)
    pub open spec fn room(&self, k: int) -> bool { self.passed_frames as int + k <= usize::MAX as int }

    /// C04: does `addr` lie in contended RAM under the current paging
    pub open spec fn contended(&self, addr: u16) -> bool {
        match self.memory.cell(addr).0 {
            Page::Ram(b) => contended_bank(self.machine, b as int),
            Page::Rom(_) => false,
        }
    }

    /// everything the time/contention machinery must leave alone
    pub open spec fn same_core(&self, o: &Self) -> bool {
        &&& self.machine == o.machine
        &&& self.memory == o.memory
        &&& self.kempston == o.kempston
        &&& self.mouse == o.mouse
        &&& self.io_extender == o.io_extender
        &&& self.debug_interface == o.debug_interface
        &&& self.mixer.beeper == o.mixer.beeper
        &&& self.mixer.ay.same_port_state(&o.mixer.ay)
        &&& self.keyboard == o.keyboard
        &&& self.keyboard_extended == o.keyboard_extended
        &&& self.keyboard_sinclair == o.keyboard_sinclair
        &&& self.caps_shift_modifier_mask == o.caps_shift_modifier_mask
        &&& self.border_color == o.border_color
        &&& self.events == o.events
        &&& self.paging_enabled == o.paging_enabled
        &&& self.screen_bank == o.screen_bank
        &&& self.current_port_7ffd == o.current_port_7ffd
        // no border-colour change and no display-bank switch reaches the devices
        &&& border_sets(self.border.calls()) == border_sets(o.border.calls())
        &&& screen_banks(self.screen.calls()) == screen_banks(o.screen.calls())
    }

    #[verifier::external_body]
    pub fn frame_pos(&self) -> f64 { unimplemented!() }

//@ fn rustzx-core/src/zx/controller.rs impl <H:Host>ZXController<H>::new_frame props C05 C08 C09 C19
//@ sig
        requires old(self).memory.wf(), old(self).frame_clocks as int >= frame_len(old(self).machine),
        ensures
            final(self).frame_clocks as int == old(self).frame_clocks as int - frame_len(old(self).machine),
            final(self).passed_frames == old(self).passed_frames,
            final(self).same_core(old(self)),
            // every per-frame device is told about the frame boundary (C08 flash counter, C09, C19)
            final(self).screen.calls() == old(self).screen.calls().push(ScreenCall::NewFrame),
            final(self).border.calls() == old(self).border.calls().push(BorderCall::NewFrame),
            final(self).mixer.calls() == old(self).mixer.calls().push(MixCall::NewFrame),
            final(self).tape == old(self).tape, final(self).last_emulation_error == old(self).last_emulation_error,
//@ at 0 //
        broadcast use group_call_logs;
//@ end

//@ fn rustzx-core/src/zx/controller.rs impl <H:Host>Z80BusforZXController<H>::wait_internal props C04 C05 C08 C11 C19
//@ sig
        requires old(self).inv(), old(self).room(1), clk as int <= 64,
        ensures
            final(self).inv(),
            // C05: no T-state is ever lost, overrun is carried
            final(self).total() == old(self).total() + clk as int,
            final(self).passed_frames as int <= old(self).passed_frames as int + 1,
            final(self).passed_frames >= old(self).passed_frames,
            final(self).same_core(old(self)),
            // every clocked device sees the elapsed time: the tape the delta, the screen the new
            // in-frame clock, the mixer one process call - then the frame-end calls if the frame ended
            final(self).tape.calls() == old(self).tape.calls().push(clk),
            ({ let t1 = (old(self).frame_clocks + clk) as usize;
               let wrapped = t1 as int >= frame_len(old(self).machine);
               &&& final(self).screen.calls() == (if wrapped { old(self).screen.calls().push(ScreenCall::Clocks(t1)).push(ScreenCall::NewFrame) }
                                                  else { old(self).screen.calls().push(ScreenCall::Clocks(t1)) })
               &&& final(self).mixer.calls() == (if wrapped { old(self).mixer.calls().push(MixCall::Process).push(MixCall::NewFrame) }
                                                 else { old(self).mixer.calls().push(MixCall::Process) })
               &&& final(self).border.calls() == (if wrapped { old(self).border.calls().push(BorderCall::NewFrame) } else { old(self).border.calls() }) }),
            // a tape failure is latched for emulate_frames to report
            final(self).last_emulation_error == (match old(self).tape.answer(clk) { Err(e) => Some(e), Ok(_) => old(self).last_emulation_error }),
//@ at 0 //
        broadcast use group_call_logs;
//@ at 1 /self\.frame_clocks \+= clk/
        proof {
            let f = frame_len(self.machine); let pf = self.passed_frames as int;
            assert((pf + 1) * f == pf * f + f) by(nonlinear_arith);
        }
//@ end

//@ fn rustzx-core/src/zx/controller.rs impl <H:Host>ZXController<H>::frames_count props C05
//@ ret r
//@ sig
        ensures r == self.passed_frames,
//@ end

//@ fn rustzx-core/src/zx/controller.rs impl <H:Host>ZXController<H>::reset_frame_counter props C05 C16
//@ sig
        ensures final(self).passed_frames == 0, final(self).frame_clocks == old(self).frame_clocks,
            final(self).same_core(old(self)),
            // C16: nothing but the host-side frame counter changes
            *final(self) == (ZXController { passed_frames: 0, ..*old(self) }),
//@ end

//@ fn rustzx-core/src/zx/controller.rs impl <H:Host>Z80BusforZXController<H>::int_active props C05
//@ ret r
//@ sig
        requires self.inv(),
        // C05: INT is high exactly for the first 32 T-states of the frame
        ensures r == ((self.frame_clocks as int) < 32),
//@ end

//@ fn rustzx-core/src/zx/controller.rs impl <H:Host>ZXController<H>::addr_is_contended props C04
//@ ret r
//@ sig
        ensures r == self.contended(addr),
//@ end

//@ fn rustzx-core/src/zx/controller.rs impl <H:Host>ZXController<H>::do_contention props C04
//@ sig
        requires old(self).inv(), old(self).room(1),
        ensures final(self).inv(), final(self).same_core(old(self)),
            final(self).total() == c_then(old(self).machine, old(self).total(), 0),
            final(self).passed_frames as int <= old(self).passed_frames as int + 1,
//@ at 1 /let contention/
        proof { reveal(c_then); lemma_total_mod(self.passed_frames as int, frame_len(self.machine), self.frame_clocks as int); }
//@ end

//@ fn rustzx-core/src/zx/controller.rs impl <H:Host>ZXController<H>::do_contention_and_wait props C04
//@ sig
        requires old(self).inv(), old(self).room(1), wait_time <= 16,
        ensures final(self).inv(), final(self).same_core(old(self)),
            final(self).total() == c_then(old(self).machine, old(self).total(), wait_time as int),
            final(self).passed_frames as int <= old(self).passed_frames as int + 1,
//@ at 1 /let contention/
        proof { reveal(c_then); lemma_total_mod(self.passed_frames as int, frame_len(self.machine), self.frame_clocks as int); }
//@ end

//@ fn rustzx-core/src/zx/controller.rs impl <H:Host>Z80BusforZXController<H>::wait_mreq props C04
//@ sig
        requires old(self).inv(), old(self).room(2), clk <= 16,
        ensures final(self).inv(), final(self).same_core(old(self)),
            // C04: a bus cycle carrying a contended address is delayed by the ULA, others are not
            final(self).total() == (if old(self).contended(addr) {
                    c_then(old(self).machine, old(self).total(), clk as int)
                } else { old(self).total() + clk as int }),
            final(self).passed_frames as int <= old(self).passed_frames as int + 2,
//@ at 0 //
        proof { reveal(c_then); }
//@ end

//@ fn rustzx-core/src/zx/controller.rs impl <H:Host>Z80BusforZXController<H>::wait_no_mreq props C04
//@ sig
        requires old(self).inv(), old(self).room(2), clk <= 16,
        ensures final(self).inv(), final(self).same_core(old(self)),
            final(self).total() == (if old(self).contended(addr) {
                    c_then(old(self).machine, old(self).total(), clk as int)
                } else { old(self).total() + clk as int }),
            final(self).passed_frames as int <= old(self).passed_frames as int + 2,
//@ end

//@ fn rustzx-core/src/zx/controller.rs impl <H:Host>ZXController<H>::io_contention_first props C04
//@ sig
        requires old(self).inv(), old(self).room(2),
        ensures final(self).inv(), final(self).same_core(old(self)),
            final(self).total() == (if old(self).contended(port) {
                    c_then(old(self).machine, old(self).total(), 1)
                } else { old(self).total() + 1 }),
            final(self).passed_frames as int <= old(self).passed_frames as int + 2,
//@ at 0 //
        proof { reveal(c_then); }
//@ end

//@ fn rustzx-core/src/zx/controller.rs impl <H:Host>ZXController<H>::io_contention_last props C04
//@ sig
        requires old(self).inv(), old(self).room(3),
        ensures final(self).inv(), final(self).same_core(old(self)),
            final(self).total() + 1 == (
                if port & 1 == 0 { c_then(old(self).machine, old(self).total(), 3) }
                else if old(self).contended(port) {
                    c_then(old(self).machine, c_then(old(self).machine,
                        c_then(old(self).machine, old(self).total(), 1), 1), 1) }
                else { old(self).total() + 3 }),
            final(self).passed_frames as int <= old(self).passed_frames as int + 3,
//@ at 0 //
        proof { reveal(c_then); }
//@ end

//@ fn rustzx-core/src/zx/controller.rs impl <H:Host>ZXController<H>::write_7ffd props C06 C07 C08
//@ sig
        requires old(self).inv_l(false),
        ensures
            old(self).inv() ==> final(self).inv(),
            old(self).paging_enabled ==> final(self).inv(),
            final(self).inv_l(false),
            // once locked (or on the 48K) every paging write is ignored
            !old(self).paging_enabled ==> final(self).memory == old(self).memory
                && final(self).screen.calls() == old(self).screen.calls()
                && final(self).current_port_7ffd == old(self).current_port_7ffd
                && final(self).paging_enabled == old(self).paging_enabled
                && final(self).screen_bank == old(self).screen_bank,
            // an accepted write becomes the latch; the map follows from paging_inv; RAM/ROM contents untouched
            old(self).paging_enabled ==> final(self).current_port_7ffd == val
                && final(self).screen_bank == (if val & 0x08 == 0 { 5u8 } else { 7u8 })
                // C08: the display is switched to the bank bit 3 selects
                && final(self).screen.calls() == old(self).screen.calls().push(ScreenCall::Bank(if val & 0x08 == 0 { 5usize } else { 7usize }))
                && final(self).memory.rom@ == old(self).memory.rom@
                && final(self).memory.ram@ == old(self).memory.ram@,
            final(self).machine == old(self).machine,
            final(self).frame_clocks == old(self).frame_clocks,
            final(self).passed_frames == old(self).passed_frames,
            final(self).border == old(self).border, final(self).tape == old(self).tape,
            final(self).mixer == old(self).mixer,
            final(self).border_color == old(self).border_color,
            final(self).io_extender == old(self).io_extender,
            final(self).kempston == old(self).kempston, final(self).mouse == old(self).mouse,
            final(self).keyboard == old(self).keyboard, final(self).keyboard_extended == old(self).keyboard_extended,
            final(self).keyboard_sinclair == old(self).keyboard_sinclair,
//@ at 1 /self\.memory\.remap\(3/
        proof {
            assert((val & 0x07) < 8) by(bit_vector);
            assert(((val >> 4) & 0x01) < 2) by(bit_vector);
        }
//@ end

//@ fn rustzx-core/src/zx/controller.rs impl <H:Host>ZXController<H>::restore_7ffd props C06 C13 C14
//@ sig
        requires old(self).inv(),
        ensures
            final(self).inv(),
            // snapshot restore: on the 128K the value always becomes the latch (lock bit included)
            !is48(old(self).machine) ==> final(self).current_port_7ffd == val
                && final(self).screen_bank == (if val & 0x08 == 0 { 5u8 } else { 7u8 }),
            is48(old(self).machine) ==> final(self).memory == old(self).memory
                && final(self).current_port_7ffd == old(self).current_port_7ffd,
            final(self).memory.rom@ == old(self).memory.rom@, final(self).memory.ram@ == old(self).memory.ram@,
            final(self).machine == old(self).machine,
            final(self).frame_clocks == old(self).frame_clocks, final(self).passed_frames == old(self).passed_frames,
            final(self).mixer == old(self).mixer, final(self).border_color == old(self).border_color,
//@ end

//@ fn rustzx-core/src/zx/controller.rs impl <H:Host>ZXController<H>::read_7ffd props C06 C13
//@ ret r
//@ sig
        ensures r == self.current_port_7ffd,
//@ end

//@ fn rustzx-core/src/zx/controller.rs impl <H:Host>Z80BusforZXController<H>::read_internal props C06
//@ ret r
//@ sig
        requires old(self).inv(),
        ensures r == old(self).memory.peek(addr), final(self).memory == old(self).memory,
            final(self).same_core(old(self)), final(self).frame_clocks == old(self).frame_clocks,
            final(self).passed_frames == old(self).passed_frames,
//@ end

//@ fn rustzx-core/src/zx/controller.rs impl <H:Host>Z80BusforZXController<H>::write_internal props C06
//@ sig
        requires old(self).inv(),
        ensures final(self).inv(),
            final(self).memory.map == old(self).memory.map,
            final(self).memory.rom@ == old(self).memory.rom@,
            forall|b: u16| #[trigger] final(self).memory.peek(b) == (
                if old(self).memory.is_ram(addr) && old(self).memory.cell(b) == old(self).memory.cell(addr) { data }
                else { old(self).memory.peek(b) }),
            final(self).frame_clocks == old(self).frame_clocks,
            final(self).passed_frames == old(self).passed_frames,
            final(self).current_port_7ffd == old(self).current_port_7ffd,
            final(self).paging_enabled == old(self).paging_enabled,
            final(self).machine == old(self).machine,
            // C08: every RAM write through any window is forwarded to the screen with (offset in bank, bank, data)
            old(self).memory.is_ram(addr) ==> final(self).screen.updates() == old(self).screen.updates().push(
                ((addr as int % 16384) as u16, (old(self).memory.cell(addr).0->Ram_0) as usize, data)),
            !old(self).memory.is_ram(addr) ==> final(self).screen.updates() == old(self).screen.updates(),
//@ end

//@ fn rustzx-core/src/zx/controller.rs impl <H:Host>ZXController<H>::set_border_color props C07 C09
//@ sig
        ensures final(self).border_color == color,
            // C09: the border device is told the colour and the in-frame time of the change
            final(self).border.calls() == old(self).border.calls().push(BorderCall::Set(clocks, color)),
            final(self).screen == old(self).screen, final(self).tape == old(self).tape,
            final(self).debug_interface == old(self).debug_interface, final(self).events == old(self).events,
            final(self).last_emulation_error == old(self).last_emulation_error,
            final(self).caps_shift_modifier_mask == old(self).caps_shift_modifier_mask,
            final(self).machine == old(self).machine, final(self).memory == old(self).memory,
            final(self).mixer == old(self).mixer, final(self).io_extender == old(self).io_extender,
            final(self).frame_clocks == old(self).frame_clocks, final(self).passed_frames == old(self).passed_frames,
            final(self).paging_enabled == old(self).paging_enabled,
            final(self).current_port_7ffd == old(self).current_port_7ffd,
            final(self).screen_bank == old(self).screen_bank,
            final(self).kempston == old(self).kempston, final(self).mouse == old(self).mouse,
            final(self).keyboard == old(self).keyboard, final(self).keyboard_extended == old(self).keyboard_extended,
            final(self).keyboard_sinclair == old(self).keyboard_sinclair,
//@ end

//@ fn rustzx-core/src/zx/controller.rs impl <H:Host>ZXController<H>::write_ula_port props C07 C09 C19 C14
//@ sig
        // the ULA's reaction to a byte written to port 0xFE, without any bus time
        ensures final(self).border_color == ZXColor::of_bits(data & 0x07),
            final(self).border.calls() == old(self).border.calls().push(BorderCall::Set(old(self).frame_clocks, ZXColor::of_bits(data & 0x07))),
            final(self).mixer.beeper.mic == (data & 0x08 != 0), final(self).mixer.beeper.ear == (data & 0x10 != 0),
            final(self).mixer.ay == old(self).mixer.ay,
            final(self).screen == old(self).screen, final(self).tape == old(self).tape,
            final(self).machine == old(self).machine, final(self).memory == old(self).memory,
            final(self).io_extender == old(self).io_extender, final(self).debug_interface == old(self).debug_interface,
            final(self).frame_clocks == old(self).frame_clocks, final(self).passed_frames == old(self).passed_frames,
            final(self).paging_enabled == old(self).paging_enabled,
            final(self).current_port_7ffd == old(self).current_port_7ffd,
            final(self).screen_bank == old(self).screen_bank,
            final(self).kempston == old(self).kempston, final(self).mouse == old(self).mouse,
            final(self).keyboard == old(self).keyboard, final(self).keyboard_extended == old(self).keyboard_extended,
            final(self).keyboard_sinclair == old(self).keyboard_sinclair,
            final(self).events == old(self).events, final(self).last_emulation_error == old(self).last_emulation_error,
            final(self).caps_shift_modifier_mask == old(self).caps_shift_modifier_mask,
//@ at 0 //
        proof { assert(data & 0x07 <= 7) by(bit_vector); }
//@ end

//@ fn rustzx-core/src/zx/controller.rs impl <H:Host>ZXController<H>::select_ay_reg props C07
//@ sig
        ensures final(self).mixer.ay.wf(), final(self).mixer.ay.current_reg == (value & 0x0F) as usize,
            final(self).mixer.ay.regs == old(self).mixer.ay.regs, final(self).mixer.beeper == old(self).mixer.beeper,
            final(self).mixer.ay.ay == old(self).mixer.ay.ay,
            final(self).same_but_mixer(old(self)),
//@ end

//@ fn rustzx-core/src/zx/controller.rs impl <H:Host>ZXController<H>::write_ay_port props C07 C18
//@ sig
        requires old(self).mixer.ay.wf(),
        ensures final(self).mixer.ay.wf(), final(self).mixer.ay.current_reg == old(self).mixer.ay.current_reg,
            final(self).mixer.ay.regs@ == old(self).mixer.ay.regs@.update(old(self).mixer.ay.current_reg as int, value),
            // C18: the value reaches the sound generator under the selected register number
            final(self).mixer.ay.ay.writes() == old(self).mixer.ay.ay.writes().push((old(self).mixer.ay.current_reg as u8, value)),
            final(self).mixer.beeper == old(self).mixer.beeper,
            final(self).same_but_mixer(old(self)),
//@ end

//@ fn rustzx-core/src/zx/controller.rs impl <H:Host>ZXController<H>::read_ay_port props C07 C18
//@ ret r
//@ sig
        requires old(self).mixer.ay.wf(),
        ensures *final(self) == *old(self), r == old(self).mixer.ay.regs@[old(self).mixer.ay.current_reg as int],
//@ end

//@ fn rustzx-core/src/zx/controller.rs impl <H:Host>Z80BusforZXController<H>::write_io props C07 C04 C08 C09 C18
//@ sig
        requires old(self).inv(), old(self).room(8),
        ensures final(self).inv(),
            // C04: port-cycle timing
            final(self).total() == io_end(old(self).machine, old(self).contended(port), port & 1 == 0, old(self).total()),
            final(self).machine == old(self).machine,
            final(self).kempston == old(self).kempston, final(self).mouse == old(self).mouse,
            final(self).keyboard == old(self).keyboard, final(self).keyboard_extended == old(self).keyboard_extended,
            final(self).keyboard_sinclair == old(self).keyboard_sinclair,
            // C07: a host extender receives exactly the ports it claims ...
            old(self).ext_claims(port) ==> final(self).io_extender is Some
                && final(self).io_extender->Some_0.log() == old(self).io_extender->Some_0.log().push((true, port, data)),
            !old(self).ext_claims(port) ==> final(self).io_extender == old(self).io_extender,
            // ... and when it is the only device selected nothing else is touched
            old(self).ext_claims(port) && old(self).ndev_w(port) == 1 ==> final(self).dev_same(old(self), true, true, true, true),
            // no device selected: nothing but time changes
            old(self).ndev_w(port) == 0 ==> final(self).dev_same(old(self), true, true, true, true),
            // ULA: border colour, MIC, speaker
            sel_ula(port) && old(self).ndev_w(port) == 1 ==> final(self).dev_same(old(self), false, true, true, true)
                && final(self).border_color == ZXColor::of_bits(data & 0x07)
                && final(self).mixer.beeper.mic == (data & 0x08 != 0)
                && final(self).mixer.beeper.ear == (data & 0x10 != 0),
            // C09: ... and the border device is told the new colour together with the in-frame clock
            // at which the write happens (after the first, N:1 / C:1, part of the port cycle)
            sel_ula(port) && old(self).ndev_w(port) == 1 ==> exists|c: usize, pf: int|
                border_sets(final(self).border.calls()) == border_sets(old(self).border.calls()).push((c, ZXColor::of_bits(data & 0x07)))
                && #[trigger] at_time(pf, frame_len(old(self).machine), c)
                    == (if old(self).contended(port) { c_then(old(self).machine, old(self).total(), 1) } else { old(self).total() + 1 })
                && (c as int) < frame_len(old(self).machine),
            // odd ports never reach the border
            !sel_ula(port) ==> border_sets(final(self).border.calls()) == border_sets(old(self).border.calls()),
            // AY register select
            sel_ay_select(port) && old(self).ndev_w(port) == 1 ==> final(self).dev_same(old(self), true, false, true, true)
                && final(self).mixer.ay.current_reg == (data & 0x0F) as usize
                && final(self).mixer.ay.regs == old(self).mixer.ay.regs,
            // AY data write
            sel_ay_data(port) && old(self).ndev_w(port) == 1 ==> final(self).dev_same(old(self), true, false, true, true)
                && final(self).mixer.ay.current_reg == old(self).mixer.ay.current_reg
                && final(self).mixer.ay.regs@ == old(self).mixer.ay.regs@.update(old(self).mixer.ay.current_reg as int, data)
                && final(self).mixer.ay.ay.writes() == old(self).mixer.ay.ay.writes().push((old(self).mixer.ay.current_reg as u8, data)),
            // no other port write reaches the sound generator
            !sel_ay_data(port) ==> final(self).mixer.ay.ay.writes() == old(self).mixer.ay.ay.writes(),
            // 128K paging latch (accepted unless locked; RAM/ROM contents never change)
            sel_paging(old(self).machine, port) && old(self).ndev_w(port) == 1 ==> final(self).dev_same(old(self), true, true, false, true),
            sel_paging(old(self).machine, port) && old(self).ndev_w(port) == 1 ==>
                final(self).memory.rom@ == old(self).memory.rom@ && final(self).memory.ram@ == old(self).memory.ram@,
            sel_paging(old(self).machine, port) && old(self).ndev_w(port) == 1 && old(self).paging_enabled ==>
                final(self).current_port_7ffd == data
                // C08: the display switches to the bank bit 3 selects
                && screen_banks(final(self).screen.calls()) == screen_banks(old(self).screen.calls()).push(if data & 0x08 == 0 { 5usize } else { 7usize }),
            // nothing else ever switches the display bank
            !(sel_paging(old(self).machine, port) && old(self).paging_enabled) ==>
                screen_banks(final(self).screen.calls()) == screen_banks(old(self).screen.calls()),
            sel_paging(old(self).machine, port) && old(self).ndev_w(port) == 1 && !old(self).paging_enabled ==>
                final(self).current_port_7ffd == old(self).current_port_7ffd && final(self).memory == old(self).memory,
            // on the 48K the paging latch does not exist
            is48(old(self).machine) ==> final(self).memory == old(self).memory,
//@ closure 1 /\|e\|/ vx_r: bool
                ensures vx_r == e.claims(port),
//@ at 0 //
        broadcast use group_call_logs;
//@ at 1 /self\.write_ula_port\(data\)/
            proof {
                assert(at_time(self.passed_frames as int, frame_len(self.machine), self.frame_clocks) == self.total());
            }
//@ after 1 /self\.write_7ffd\(data\);/
            proof {
                assert(port & 0x8002 == 0 ==> port < 0x8000) by(bit_vector);
                assert(self.contended(port) == old(self).contended(port));
            }
//@ end

    pub open spec fn ext_claims(&self, port: u16) -> bool {
        self.io_extender is Some && self.io_extender->Some_0.claims(port)
    }

    /// number of devices a port *write* selects (C07 speaks about ports where this is 1)
    pub open spec fn ndev_w(&self, port: u16) -> int {
        (if self.ext_claims(port) { 1int } else { 0 }) + (if sel_ula(port) { 1int } else { 0 })
            + (if sel_ay_select(port) { 1int } else { 0 }) + (if sel_ay_data(port) { 1int } else { 0 })
            + (if sel_paging(self.machine, port) { 1int } else { 0 })
    }

    /// device state unchanged, selectively: ULA outputs / AY / paging+memory / extender
    pub open spec fn dev_same(&self, o: &Self, ula: bool, ay: bool, paging: bool, ext: bool) -> bool {
        &&& ula ==> self.border_color == o.border_color && self.mixer.beeper == o.mixer.beeper
        &&& ay ==> self.mixer.ay.same_port_state(&o.mixer.ay)
        &&& paging ==> self.memory == o.memory && self.current_port_7ffd == o.current_port_7ffd
                && self.paging_enabled == o.paging_enabled && self.screen_bank == o.screen_bank
        &&& ext ==> true
    }

    /// C07: is the ULA fetching picture data at in-frame T-state `t`, and which (row, col, attr?)
    pub open spec fn fb_origin(m: ZXMachine) -> int { t0(m) + 3 }
    pub open spec fn fb_fetching(m: ZXMachine, t: int) -> bool {
        &&& t >= Self::fb_origin(m)
        &&& (t - Self::fb_origin(m)) / tline(m) < 192
        &&& (t - Self::fb_origin(m)) % tline(m) < 128
        &&& ((t - Self::fb_origin(m)) % tline(m)) % 8 < 4
    }
    pub open spec fn fb_addr(m: ZXMachine, t: int) -> int {
        let row = (t - Self::fb_origin(m)) / tline(m);
        let c = (t - Self::fb_origin(m)) % tline(m);
        let col = (c / 8) * 2 + (c % 8) / 2;
        if c % 2 == 0 { 0x4000 + display_offset(row, col) } else { 0x5800 + (row / 8) * 32 + col }
    }

//@ fn rustzx-core/src/zx/controller.rs impl <H:Host>ZXController<H>::floating_bus_value props C07
//@ ret r
//@ sig
        requires self.inv(),
        ensures
            // 0xFF whenever the ULA is not fetching picture data
            !Self::fb_fetching(self.machine, self.frame_clocks as int) ==> r == 0xFF,
            // otherwise the display / attribute byte being fetched
            Self::fb_fetching(self.machine, self.frame_clocks as int) ==>
                0x4000 <= Self::fb_addr(self.machine, self.frame_clocks as int) < 0x5B00
                && r == self.memory.peek(Self::fb_addr(self.machine, self.frame_clocks as int) as u16),
//@ at 1 /if row < CANVAS_HEIGHT/
        proof { assert(((clocks & 0x04) == 0) <==> (clocks % 8 < 4)) by(bit_vector); }
//@ end

    /// number of devices a port *read* selects (C07 speaks about ports where this is at most 1)
    pub open spec fn ndev_r(&self, port: u16) -> int {
        (if self.ext_claims(port) { 1int } else { 0 }) + (if sel_ula(port) { 1int } else { 0 })
            + (if self.mouse is Some && (sel_mouse_buttons(port) || sel_mouse_x(port) || sel_mouse_y(port)) { 1int } else { 0 })
            + (if sel_ay_select(port) { 1int } else { 0 })
            + (if self.kempston is Some && sel_kempston(port) { 1int } else { 0 })
    }
    /// floating-bus byte at in-frame clock `c` (statement of C07)
    pub open spec fn fb_byte(&self, c: int) -> u8 {
        if Self::fb_fetching(self.machine, c) { self.memory.peek(Self::fb_addr(self.machine, c) as u16) } else { 0xFFu8 }
    }

//@ fn rustzx-core/src/zx/controller.rs impl <H:Host>Z80BusforZXController<H>::read_io props C07 C04 C17
//@ ret r
//@ sig
        requires old(self).inv(), old(self).room(8),
        ensures final(self).inv(),
            // C04: port-cycle timing, the same four patterns as a write
            final(self).total() == io_end(old(self).machine, old(self).contended(port), port & 1 == 0, old(self).total()),
            // a read changes nothing but time (and the extender's own log)
            final(self).same_core_but_ext(old(self)),
            // C07: a host extender receives exactly the ports it claims, and its answer is the result
            old(self).ext_claims(port) ==> final(self).io_extender is Some
                && final(self).io_extender->Some_0.log() == old(self).io_extender->Some_0.log().push((false, port, r)),
            !old(self).ext_claims(port) ==> final(self).io_extender == old(self).io_extender,
            // ULA: selected half-rows AND-ed (C17), tape EAR on bit 6
            // (the EAR level is the tape's at the moment of the read: after the contention delays and
            // before the last T-state of the cycle has been handed to the tape)
            sel_ula(port) && old(self).ndev_r(port) == 1 ==> exists|t: ZXTape<H::TapeAsset>|
                final(self).tape.calls() == (#[trigger] t.calls()).push(1usize)
                && r == rows_and((port >> 8) as u8, old(self).keyboard, old(self).keyboard_extended, old(self).keyboard_sinclair, 8)
                     ^ (if t.ear() { 0u8 } else { 0x40u8 }),
            // Kempston mouse
            old(self).mouse is Some && sel_mouse_buttons(port) && old(self).ndev_r(port) == 1 ==> r == old(self).mouse->Some_0.buttons_port,
            old(self).mouse is Some && sel_mouse_x(port) && old(self).ndev_r(port) == 1 ==> r == old(self).mouse->Some_0.x_pos_port,
            old(self).mouse is Some && sel_mouse_y(port) && old(self).ndev_r(port) == 1 ==> r == old(self).mouse->Some_0.y_pos_port,
            // AY read-back of the selected register
            sel_ay_select(port) && old(self).ndev_r(port) == 1 ==> r == old(self).mixer.ay.regs@[old(self).mixer.ay.current_reg as int],
            // Kempston joystick
            old(self).kempston is Some && sel_kempston(port) && old(self).ndev_r(port) == 1 ==> r == old(self).kempston->Some_0.state,
            // no device: the floating bus at the T-state before the last one of the port cycle
            old(self).ndev_r(port) == 0 ==> exists|c: usize, pf: int|
                #[trigger] at_time(pf, frame_len(old(self).machine), c) + 1
                    == io_end(old(self).machine, old(self).contended(port), port & 1 == 0, old(self).total())
                && (c as int) < frame_len(old(self).machine)
                && r == old(self).fb_byte(c as int),
//@ opaque 1 /let io_extender_value = self/ vx_ext_read(&mut self.io_extender, port)
self.io_extender.as_mut().and_then(|e| e.extends_port(port).then(|| e.read(port)))
//@ at 0 //
        broadcast use group_call_logs;
        proof {
            assert(port & 0x0521 == 0x0101 ==> !(port & 0x0121 == 0x0001)) by(bit_vector);
            assert(port & 0x0521 == 0x0501 ==> !(port & 0x0121 == 0x0001) && !(port & 0x0521 == 0x0101)) by(bit_vector);
            assert((port >> 8) as u8 == ((port >> 8) as u8)) ;
        }
//@ loop 0 iter it
                invariant
                    h == (port >> 8) as u8,
                    tmp == rows_and(h, self.keyboard, self.keyboard_extended, self.keyboard_sinclair, it.index@ as nat),
//@ at 1 /if !self\.tape\.current_bit\(\)/
            proof { assert(tmp ^ 0u8 == tmp) by(bit_vector); }
//@ at 1 /self\.wait_internal\(1\)/
        proof {
            assert(at_time(self.passed_frames as int, frame_len(self.machine), self.frame_clocks) == self.total());
            assert(self.contended(port) == old(self).contended(port));
        }
//@ end

    /// same_core, except that the host extender may have logged a read
    pub open spec fn same_core_but_ext(&self, o: &Self) -> bool {
        &&& self.machine == o.machine
        &&& self.memory == o.memory
        &&& self.kempston == o.kempston
        &&& self.mouse == o.mouse
        &&& self.debug_interface == o.debug_interface
        &&& self.mixer.beeper == o.mixer.beeper
        &&& self.mixer.ay.same_port_state(&o.mixer.ay)
        &&& self.keyboard == o.keyboard
        &&& self.keyboard_extended == o.keyboard_extended
        &&& self.keyboard_sinclair == o.keyboard_sinclair
        &&& self.caps_shift_modifier_mask == o.caps_shift_modifier_mask
        &&& self.border_color == o.border_color
        &&& self.events == o.events
        &&& self.paging_enabled == o.paging_enabled
        &&& self.screen_bank == o.screen_bank
        &&& self.current_port_7ffd == o.current_port_7ffd
        &&& border_sets(self.border.calls()) == border_sets(o.border.calls())
        &&& screen_banks(self.screen.calls()) == screen_banks(o.screen.calls())
    }


//@ fn rustzx-z80/src/bus.rs trait Z80Bus::wait_loop props C04
//@ sig
        requires old(self).inv(), old(self).room(2 * clk as int), clk <= 16,
        ensures final(self).inv(), final(self).same_core(old(self)),
            final(self).total() == loop_time(old(self).machine, old(self).contended(addr), old(self).total(), clk as nat),
            final(self).passed_frames as int <= old(self).passed_frames as int + 2 * clk as int,
//@ loop 0 iter it
            invariant
                self.inv(), self.same_core(old(self)), clk <= 16,
                self.passed_frames as int <= old(self).passed_frames as int + 2 * it.index@ as int,
                old(self).room(2 * clk as int),
                loop_time(old(self).machine, old(self).contended(addr), self.total(), (clk - it.index@) as nat)
                    == loop_time(old(self).machine, old(self).contended(addr), old(self).total(), clk as nat),
//@ end

//@ fn rustzx-z80/src/bus.rs trait Z80Bus::read props C04 C06
//@ ret r
//@ sig
        requires old(self).inv(), old(self).room(2), clk <= 16,
        ensures final(self).inv(), final(self).same_core(old(self)),
            r == old(self).memory.peek(addr),
            final(self).total() == (if old(self).contended(addr) {
                    c_then(old(self).machine, old(self).total(), clk as int)
                } else { old(self).total() + clk as int }),
//@ end

//@ fn rustzx-z80/src/bus.rs trait Z80Bus::write props C04 C06
//@ sig
        requires old(self).inv(), old(self).room(2), clk <= 16,
        ensures final(self).inv(),
            final(self).memory.map == old(self).memory.map,
            final(self).memory.rom@ == old(self).memory.rom@,
            forall|b: u16| #[trigger] final(self).memory.peek(b) == (
                if old(self).memory.is_ram(addr) && old(self).memory.cell(b) == old(self).memory.cell(addr) { value }
                else { old(self).memory.peek(b) }),
            final(self).total() == (if old(self).contended(addr) {
                    c_then(old(self).machine, old(self).total(), clk as int)
                } else { old(self).total() + clk as int }),
//@ end

    pub open spec fn same_but_mixer(&self, o: &Self) -> bool {
        &&& self.machine == o.machine && self.memory == o.memory && self.kempston == o.kempston
        &&& self.mouse == o.mouse && self.io_extender == o.io_extender
        &&& self.keyboard == o.keyboard && self.keyboard_extended == o.keyboard_extended
        &&& self.keyboard_sinclair == o.keyboard_sinclair && self.border_color == o.border_color
        &&& self.frame_clocks == o.frame_clocks && self.passed_frames == o.passed_frames
        &&& self.paging_enabled == o.paging_enabled && self.screen_bank == o.screen_bank
        &&& self.current_port_7ffd == o.current_port_7ffd
        &&& self.border == o.border && self.screen == o.screen && self.tape == o.tape
    }
}


// ======================================================================
// C16: emulate_frames is iteration of ONE machine-step function, whatever the host's slicing
// ======================================================================
#[verifier::external_body]
pub struct Z80 { _p: u8 }
#[verifier::external_body]
pub struct RustzxSettings { _p: u8 }
//@ item rustzx-core/src/utils/mod.rs enum EmulationMode
//@ item rustzx-core/src/emulator/mod.rs enum EmulationStopReason
//@ item rustzx-core/src/emulator/mod.rs struct EmulationInfo
//@ item rustzx-core/src/emulator/mod.rs struct Emulator

/// machine state: CPU, controller without the host-side `passed_frames` counter, fast-load switch.
/// `mode` (frames per call / max speed), `sound_enabled` and the stopwatch are host driving, not state.
pub ghost struct MS<H: Host> { pub c: Z80, pub m: ZXController<H>, pub fl: bool }

#[verifier::opaque]
pub open spec fn mview<H: Host>(c: ZXController<H>) -> ZXController<H> { ZXController { passed_frames: 0, ..c } }
pub open spec fn clr_err<H: Host>(m: ZXController<H>) -> ZXController<H> { ZXController { last_emulation_error: None, ..m } }
pub open spec fn clr_ev<H: Host>(m: ZXController<H>) -> ZXController<H> { ZXController { events: EmulationEvents { bits: 0 }, ..m } }
pub proof fn lemma_mview<H: Host>(c: ZXController<H>)
    ensures mview(clr_err(c)) == clr_err(mview(c)), mview(clr_ev(c)) == clr_ev(mview(c)),
        mview(c).last_emulation_error == c.last_emulation_error, mview(c).events == c.events, mview(c).tape == c.tape,
        mview(ZXController { passed_frames: 0, ..c }) == mview(c),
{
    reveal(mview);
}

impl<H: Host> Emulator<H> {
    pub open spec fn ms(&self) -> MS<H> { MS { c: self.cpu, m: mview(self.controller), fl: self.fast_load } }
}

/// what Z80::emulate / fast_load_tap compute (C01-C03 / C10 say what; here only: a function of the machine state)
pub uninterp spec fn cpu_step<H: Host>(c: Z80, m: ZXController<H>) -> (Z80, ZXController<H>);
pub uninterp spec fn fast_load<H: Host>(s: MS<H>) -> (MS<H>, Option<Error>);
pub uninterp spec fn tape_can_fast_load<A>(t: ZXTape<A>) -> bool;

pub enum Outcome { Continue, Break, Fail(Error) }

pub open spec fn ev_fastload(bits: u8) -> bool { bits & 1 == 1 }
pub open spec fn ev_break(bits: u8) -> bool { bits & 2 == 2 }

/// C16: one pass through the step loop: CPU step, pending error, events, fast load, breakpoint
pub open spec fn substep<H: Host>(s: MS<H>) -> (MS<H>, Outcome) {
    let (c1, m1) = cpu_step(s.c, s.m);
    if m1.last_emulation_error is Some {
        (MS { c: c1, m: clr_err(m1), fl: s.fl }, Outcome::Fail(m1.last_emulation_error->Some_0))
    } else {
        let ev = m1.events.bits;
        let s3 = MS { c: c1, m: clr_ev(m1), fl: s.fl };
        let (s4, ferr) = if ev_fastload(ev) && tape_can_fast_load(s3.m.tape) && s3.fl { fast_load(s3) } else { (s3, None::<Error>) };
        if ferr is Some { (s4, Outcome::Fail(ferr->Some_0)) }
        else if ev_break(ev) { (s4, Outcome::Break) }
        else { (s4, Outcome::Continue) }
    }
}

/// n steps
#[verifier::opaque]
pub open spec fn run<H: Host>(s: MS<H>, n: nat) -> MS<H>
    decreases n
{
    if n == 0 { s } else { substep(run(s, (n - 1) as nat)).0 }
}
/// ... none of which ended the run
#[verifier::opaque]
pub open spec fn all_continue<H: Host>(s: MS<H>, n: nat) -> bool
    decreases n
{
    n == 0 || (all_continue(s, (n - 1) as nat) && substep(run(s, (n - 1) as nat)).1 is Continue)
}

/// C16 (slicing independence): a steps then b steps are a+b steps, so every way of cutting a run
/// into emulate_frames calls (frames per call, max speed, stopwatch timeouts, breakpoint stop and
/// resume) passes through the same machine states
pub proof fn lemma_run_step<H: Host>(s: MS<H>, n: nat)
    ensures run(s, 0) == s, all_continue(s, 0),
        run(s, n + 1) == substep(run(s, n)).0,
        all_continue(s, n + 1) == (all_continue(s, n) && substep(run(s, n)).1 is Continue),
{
    reveal_with_fuel(run, 2);
    reveal_with_fuel(all_continue, 2);
    assert((n + 1 - 1) as nat == n);
}

pub proof fn lemma_run_compose<H: Host>(s: MS<H>, a: nat, b: nat)
    ensures run(run(s, a), b) == run(s, a + b),
        all_continue(s, a) && all_continue(run(s, a), b) ==> all_continue(s, a + b),
    decreases b
{
    lemma_run_step(run(s, a), 0);
    if b > 0 {
        lemma_run_compose(s, a, (b - 1) as nat);
        lemma_run_step(run(s, a), (b - 1) as nat);
        lemma_run_step(s, a + (b - 1) as nat);
        assert(a + (b - 1) as nat + 1 == a + b);
        assert((b - 1) as nat + 1 == b);
    }
}

impl Z80 {
    /// assumed: a function of (CPU, machine view of the bus) - see unit header
    #[verifier::external_body]
    pub fn emulate<H: Host>(&mut self, bus: &mut ZXController<H>)
        ensures (*final(self), mview(*final(bus))) == cpu_step(*old(self), mview(*old(bus))),
    { unimplemented!() }
}

impl EmulationEvents {
    pub const TAPE_FAST_LOAD_TRIGGER_DETECTED: EmulationEvents = EmulationEvents { bits: 1 };
    pub const PC_BREAKPOINT: EmulationEvents = EmulationEvents { bits: 2 };
    /// bitflags-generated (assumed)
    #[verifier::external_body]
    pub fn is_empty(&self) -> (r: bool)
        ensures r == (self.bits == 0),
    { unimplemented!() }
    #[verifier::external_body]
    pub fn contains(&self, other: EmulationEvents) -> (r: bool)
        ensures r == (self.bits & other.bits == other.bits),
    { unimplemented!() }

//@ fn rustzx-core/src/zx/events.rs impl EmulationEvents::take props C16
//@ ret r
//@ sig
        ensures r == *old(self), final(self).bits == 0,
//@ end
}

impl<A> ZXTape<A> {
    #[verifier::external_body]
    pub fn can_fast_load(&self) -> (r: bool)
        ensures r == tape_can_fast_load(*self),
    { unimplemented!() }
}

pub mod fastload { pub mod tap {
    use super::super::*;
    /// assumed: a function of the machine state (what it computes: unit fastload, C10)
    #[verifier::external_body]
    pub fn fast_load_tap<H: Host>(emulator: &mut Emulator<H>) -> (r: Result<()>)
        ensures (final(emulator).ms(), match r { Ok(_) => None::<Error>, Err(e) => Some(e) }) == fast_load(old(emulator).ms()),
    { unimplemented!() }
} }

impl<H: Host> ZXController<H> {
//@ fn rustzx-core/src/zx/controller.rs impl <H:Host>ZXController<H>::take_last_emulation_error props C16
//@ ret r
//@ sig
        ensures r == old(self).last_emulation_error,
            *final(self) == clr_err(*old(self)),
//@ end

//@ fn rustzx-core/src/zx/controller.rs impl <H:Host>ZXController<H>::take_events props C16
//@ ret r
//@ sig
        ensures r == old(self).events,
            *final(self) == clr_ev(*old(self)),
//@ end
}

impl<H: Host> Emulator<H> {
//@ fn rustzx-core/src/emulator/mod.rs impl <H:Host>Emulator<H>::process_fast_load_event props C16
//@ ret r
//@ sig
        ensures
            tape_can_fast_load(old(self).controller.tape) && old(self).fast_load ==>
                (final(self).ms(), match r { Ok(_) => None::<Error>, Err(e) => Some(e) }) == fast_load(old(self).ms()),
            !(tape_can_fast_load(old(self).controller.tape) && old(self).fast_load) ==> r is Ok && final(self).ms() == old(self).ms(),
//@ end

//@ fn rustzx-core/src/emulator/mod.rs impl <H:Host>Emulator<H>::emulate_frames props C16
//@ ret r
//@ sig
        // C16: whatever the mode, the time limit and the stopwatch readings, the call performs
        // k+1 machine steps and nothing else (the first k do not end the run); it stops early
        // only for the reason it reports
        ensures exists|k: nat| all_continue(old(self).ms(), k)
            && ({ let (sf, last) = substep(#[trigger] run(old(self).ms(), k));
                  sf == final(self).ms() && match r {
                    Err(e) => last == Outcome::Fail(e),
                    Ok(info) => if info.stop_reason == EmulationStopReason::Breakpoint { last is Break } else { last is Continue },
                  } }),
//@ at 0 //
        let ghost s0 = self.ms();
        let ghost n: nat = 0;
        proof { lemma_run_step(s0, 0); }
//@ loop 0
            invariant all_continue(s0, n), run(s0, n) == self.ms(), s0 == old(self).ms(),
//@ at 1 /self\.controller\.reset_frame_counter\(\);/
            proof { lemma_mview(self.controller); }
//@ loop 1
            invariant all_continue(s0, n), run(s0, n) == self.ms(), s0 == old(self).ms(),
            ensures n >= 1,
//@ after 1 /self\.cpu\.emulate\(&mut self\.controller\);/
                proof {
                    lemma_run_step(s0, n);
                    n = n + 1;
                    assert(0u8 & 1 != 1 && 0u8 & 2 != 2) by(bit_vector);
                    lemma_mview(self.controller);
                }
//@ at 1 /self\.controller\.take_events\(\)/
                proof { lemma_mview(self.controller); }
//@ at 1 /if stopwatch\.measure\(\) > emulation_limit/
            proof { lemma_run_step(s0, (n - 1) as nat); }
//@ end
}

} // verus!
fn main() {}
