//@ unit szx
//@ props C14 C15
//@ assume the block handlers are verified for EVERY block content of at least the minimal size `szx::load` checks before dispatching (37/37/8/18/5/1/3 bytes: scan `szx_min_sizes`); the chunk loop of `load` itself (byte-string patterns, from_utf8, make_ascii_uppercase) is outside the Verus subset and is covered by the bounded Kani group K-core::loaders-szx (thorough tier)
//@ assume Regs setters / swap_af_alt / exx / inc_pc / set_q / clear_q / set_mem_ptr (rustzx-z80) are external with field-update contracts; the instructions built on them are the subject of K-z80 (C01)
//@ assume ZXController::{restore_7ffd, write_ula_port}, ZXAyChip::{select_reg, set_regs}, ZXColor::from_bits are external here with a ghost call log; their real contracts are unit ctl
//@ assume ZXMemory::ram_page_data_mut: pages below the machine's page count are valid, the slice is exactly the 16 KiB of the bank (Kani K-core::memory::page_slices)
//@ assume decompress_zlib_stream (miniz_oxide) is external: returns any Ok(Vec) / Err
use vstd::prelude::*;
use core::str::from_utf8;

verus! {

pub enum SnapshotLoadError { InvalidSZXFile, ZlibNotSupported, MachineNotSupported }
pub enum Error { SnapshotLoad(SnapshotLoadError), Other }
pub type Result<T> = core::result::Result<T, Error>;
impl core::convert::From<SnapshotLoadError> for Error {
    #[verifier::external_body]
    fn from(e: SnapshotLoadError) -> (r: Error) { Error::SnapshotLoad(e) }
}

pub trait Host { }

//@ item rustzx-core/src/zx/machine/mod.rs enum ZXMachine
//@ item rustzx-core/src/zx/video/colors.rs enum ZXColor
//@ item rustzx-core/src/emulator/snapshot/szx.rs const ZXST_MID_128K
//@ item rustzx-core/src/emulator/snapshot/szx.rs const ZXSTZF_EILAST
//@ item rustzx-core/src/emulator/snapshot/szx.rs const ZXSTZF_HALTED
//@ item rustzx-core/src/emulator/snapshot/szx.rs const ZXSTZF_FSET
//@ item rustzx-core/src/emulator/snapshot/szx.rs const ZXSTAYF_128AY
//@ item rustzx-core/src/emulator/snapshot/szx.rs const ZXSTKJT_KEMPSTON
//@ item rustzx-core/src/emulator/snapshot/szx.rs const ZXSTM_KEMPSTON
//@ item rustzx-core/src/emulator/snapshot/szx.rs const ZXSTRF_COMPRESSED

pub open spec fn w16(lo: u8, hi: u8) -> u16 { (lo as u16) | ((hi as u16) << 8) }
pub open spec fn w32(b0: u8, b1: u8, b2: u8, b3: u8) -> u32 {
    (b0 as u32) | ((b1 as u32) << 8) | ((b2 as u32) << 16) | ((b3 as u32) << 24)
}
#[verifier::external_body]
pub fn vx_u16_from_le_bytes(b: [u8; 2]) -> (r: u16)
    ensures r == w16(b[0], b[1]),
{ u16::from_le_bytes(b) }
#[verifier::external_body]
pub fn vx_u32_from_le_bytes(b: [u8; 4]) -> (r: u32)
    ensures r == w32(b[0], b[1], b[2], b[3]),
{ u32::from_le_bytes(b) }

pub struct ZXSpecs { pub clocks_frame: usize }
impl ZXMachine {
    pub open spec fn frame_len(self) -> int { if self == ZXMachine::Sinclair48K { 69888 } else { 70908 } }
    #[verifier::external_body]
    pub fn specs(self) -> (r: &'static ZXSpecs)
        ensures r.clocks_frame == self.frame_len(),
    { unimplemented!() }
}
impl ZXColor {
    pub uninterp spec fn of_bits(b: u8) -> ZXColor;
    #[verifier::external_body]
    pub fn from_bits(bits: u8) -> (r: ZXColor)
        requires bits <= 7,
        ensures r == ZXColor::of_bits(bits),
    { unimplemented!() }
}

// ---------------------------------------------------------------- CPU (R-ext shapes)
pub struct Regs {
    pub af: u16, pub bc: u16, pub de: u16, pub hl: u16,
    pub af_alt: u16, pub bc_alt: u16, pub de_alt: u16, pub hl_alt: u16,
    pub ix: u16, pub iy: u16, pub sp: u16, pub pc: u16,
    pub i: u8, pub r: u8, pub iff1: bool, pub iff2: bool, pub q: bool, pub mem_ptr: u16,
}
impl Regs {
    #[verifier::external_body] pub fn set_af(&mut self, v: u16) ensures *final(self) == (Regs { af: v, ..*old(self) }), { unimplemented!() }
    #[verifier::external_body] pub fn set_bc(&mut self, v: u16) ensures *final(self) == (Regs { bc: v, ..*old(self) }), { unimplemented!() }
    #[verifier::external_body] pub fn set_de(&mut self, v: u16) ensures *final(self) == (Regs { de: v, ..*old(self) }), { unimplemented!() }
    #[verifier::external_body] pub fn set_hl(&mut self, v: u16) ensures *final(self) == (Regs { hl: v, ..*old(self) }), { unimplemented!() }
    #[verifier::external_body] pub fn set_ix(&mut self, v: u16) ensures *final(self) == (Regs { ix: v, ..*old(self) }), { unimplemented!() }
    #[verifier::external_body] pub fn set_iy(&mut self, v: u16) ensures *final(self) == (Regs { iy: v, ..*old(self) }), { unimplemented!() }
    #[verifier::external_body] pub fn set_sp(&mut self, v: u16) ensures *final(self) == (Regs { sp: v, ..*old(self) }), { unimplemented!() }
    #[verifier::external_body] pub fn set_pc(&mut self, v: u16) ensures *final(self) == (Regs { pc: v, ..*old(self) }), { unimplemented!() }
    #[verifier::external_body] pub fn set_i(&mut self, v: u8) ensures *final(self) == (Regs { i: v, ..*old(self) }), { unimplemented!() }
    #[verifier::external_body] pub fn set_r(&mut self, v: u8) ensures *final(self) == (Regs { r: v, ..*old(self) }), { unimplemented!() }
    #[verifier::external_body] pub fn set_iff1(&mut self, v: bool) ensures *final(self) == (Regs { iff1: v, ..*old(self) }), { unimplemented!() }
    #[verifier::external_body] pub fn set_iff2(&mut self, v: bool) ensures *final(self) == (Regs { iff2: v, ..*old(self) }), { unimplemented!() }
    #[verifier::external_body] pub fn set_mem_ptr(&mut self, v: u16) ensures *final(self) == (Regs { mem_ptr: v, ..*old(self) }), { unimplemented!() }
    #[verifier::external_body] pub fn set_q(&mut self) ensures *final(self) == (Regs { q: true, ..*old(self) }), { unimplemented!() }
    #[verifier::external_body] pub fn clear_q(&mut self) ensures *final(self) == (Regs { q: false, ..*old(self) }), { unimplemented!() }
    #[verifier::external_body] pub fn swap_af_alt(&mut self)
        ensures *final(self) == (Regs { af: old(self).af_alt, af_alt: old(self).af, ..*old(self) }), { unimplemented!() }
    #[verifier::external_body] pub fn exx(&mut self)
        ensures *final(self) == (Regs { bc: old(self).bc_alt, de: old(self).de_alt, hl: old(self).hl_alt,
                                        bc_alt: old(self).bc, de_alt: old(self).de, hl_alt: old(self).hl, ..*old(self) }), { unimplemented!() }
    #[verifier::external_body] pub fn inc_pc(&mut self) -> (r: u16)
        ensures *final(self) == (Regs { pc: if old(self).pc == 0xFFFF { 0u16 } else { (old(self).pc + 1) as u16 }, ..*old(self) }), { unimplemented!() }
}
pub struct Z80 { pub regs: Regs, pub halted: bool, pub skip_interrupt: bool, pub im: u8 }
impl Z80 {
    /// real set_im asserts value < 3 (a panic otherwise)
    #[verifier::external_body]
    pub fn set_im(&mut self, value: u8)
        requires value < 3,
        ensures *final(self) == (Z80 { im: value, ..*old(self) }),
    { unimplemented!() }
}

// ---------------------------------------------------------------- controller (R-ext shapes)
#[derive(PartialEq, Eq, Structural)]
pub struct KempstonJoy { pub state: u8 }
impl Default for KempstonJoy {
    #[verifier::external_body]
    fn default() -> (r: Self) ensures r == (KempstonJoy { state: 0 }), { KempstonJoy { state: 0 } }
}
pub mod kempston {
    pub use super::KempstonJoy;
}
#[derive(PartialEq, Eq, Structural)]
pub struct KempstonMouse { pub state: u8 }
impl Default for KempstonMouse {
    #[verifier::external_body]
    fn default() -> (r: Self) ensures r == (KempstonMouse { state: 0 }), { KempstonMouse { state: 0 } }
}

#[verifier::external_body]
pub struct ZXMemory { _p: u8 }
impl ZXMemory {
    pub uninterp spec fn ram_page(&self, p: u8) -> Seq<u8>;
    pub uninterp spec fn pages(&self) -> int;
    #[verifier::external_body]
    pub fn ram_page_data_mut(&mut self, page: u8) -> (r: &mut [u8])
        requires (page as int) < old(self).pages(),
        ensures r@ == old(self).ram_page(page), r@.len() == 16384,
            final(self).ram_page(page) == final(r)@, final(self).pages() == old(self).pages(),
            forall|q: u8| q != page ==> final(self).ram_page(q) == old(self).ram_page(q),
    { unimplemented!() }
}

pub struct ZXAyChip { pub current_reg: u8, pub regs: Seq<u8> }
impl ZXAyChip {
    #[verifier::external_body]
    pub fn select_reg(&mut self, reg: u8)
        ensures *final(self) == (ZXAyChip { current_reg: reg, ..*old(self) }),
    { unimplemented!() }
    /// unit ctl: requires 16 values, restores the register file (and programs the generator)
    #[verifier::external_body]
    pub fn set_regs(&mut self, regs: &[u8])
        requires regs@.len() >= 16,
        ensures *final(self) == (ZXAyChip { regs: regs@.subrange(0, 16), ..*old(self) }),
    { unimplemented!() }
}
pub struct ZXMixer { pub ay: ZXAyChip, pub use_ay: bool }

#[verifier::external_body]
#[verifier::reject_recursive_types(H)]
pub struct CtlRest<H: Host> { _p: core::marker::PhantomData<H> }

#[verifier::reject_recursive_types(H)]
pub struct ZXController<H: Host> {
    pub memory: ZXMemory,
    pub mixer: ZXMixer,
    pub kempston: Option<kempston::KempstonJoy>,
    pub mouse: Option<KempstonMouse>,
    pub border_color: ZXColor,
    pub frame_clocks: usize,
    /// ghost: paging latch values handed to restore_7ffd, bytes handed to write_ula_port
    pub latch_restores: Ghost<Seq<u8>>,
    pub ula_writes: Ghost<Seq<u8>>,
    pub rest: CtlRest<H>,
}
impl<H: Host> ZXController<H> {
    #[verifier::external_body]
    pub fn restore_7ffd(&mut self, val: u8)
        ensures *final(self) == (ZXController { latch_restores: Ghost(old(self).latch_restores@.push(val)),
                                                rest: final(self).rest, memory: final(self).memory, ..*old(self) }),
            final(self).memory.pages() == old(self).memory.pages(),
            forall|q: u8| final(self).memory.ram_page(q) == old(self).memory.ram_page(q),
    { unimplemented!() }
    /// a real port cycle (unit ctl): spends bus time, so the frame clock and everything clocked by
    /// it move; kept here so that a loader going back to it is refuted, not merely unparsable
    #[verifier::external_body]
    pub fn write_io(&mut self, port: u16, data: u8)
        ensures final(self).latch_restores@ == old(self).latch_restores@,
            forall|q: u8| final(self).memory.ram_page(q) == old(self).memory.ram_page(q),
            final(self).memory.pages() == old(self).memory.pages(),
    { unimplemented!() }
    /// unit ctl (real contract of write_ula_port): border colour and beeper bits follow the byte,
    /// no bus time, nothing else this loader looks at changes
    #[verifier::external_body]
    pub fn write_ula_port(&mut self, data: u8)
        ensures *final(self) == (ZXController { ula_writes: Ghost(old(self).ula_writes@.push(data)),
                                                border_color: final(self).border_color, rest: final(self).rest, ..*old(self) }),
    { unimplemented!() }
}

pub struct RustzxSettings { pub machine: ZXMachine, pub ay_enabled: bool }
#[verifier::reject_recursive_types(H)]
pub struct Emulator<H: Host> { pub settings: RustzxSettings, pub cpu: Z80, pub controller: ZXController<H> }

impl<H: Host> Emulator<H> {
    pub open spec fn ram_pages(&self) -> int { if self.settings.machine == ZXMachine::Sinclair48K { 3 } else { 8 } }
    pub open spec fn wf(&self) -> bool { self.controller.memory.pages() == self.ram_pages() }

//@ fn rustzx-core/src/emulator/mod.rs impl <H:Host>Emulator<H>::set_ay_enabled props C14
//@ sig
        ensures *final(self) == (Emulator {
            settings: RustzxSettings { ay_enabled: value, ..old(self).settings },
            controller: ZXController { mixer: ZXMixer { use_ay: value, ..old(self).controller.mixer }, ..old(self).controller },
            ..*old(self) }),
//@ end
}

/// what the zlib decoder makes of a byte string (miniz_oxide, assumed: a function of the bytes)
pub uninterp spec fn inflate(bytes: Seq<u8>) -> Option<Seq<u8>>;
#[verifier::external_body]
pub fn decompress_zlib_stream(bytes: &[u8]) -> (r: Result<Vec<u8>>)
    ensures r is Ok == inflate(bytes@) is Some, r is Ok ==> r->Ok_0@ == inflate(bytes@)->Some_0,
{ unimplemented!() }

/// std functions without a vstd spec (trusted, enumerated)
#[verifier::external_type_specification]
#[verifier::external_body]
pub struct ExUtf8Error(core::str::Utf8Error);
pub assume_specification<'a>[ core::str::from_utf8 ](v: &'a [u8]) -> (r: core::result::Result<&'a str, core::str::Utf8Error>);
pub assume_specification<T: Clone>[ <[T]>::to_vec ](s: &[T]) -> (r: Vec<T>)
    ensures r@ == s@;

// ---------------------------------------------------------------- format decode (SZX specification)
/// ZXSTZ80REGS: AF BC DE HL AF' BC' DE' HL' IX IY SP PC I R IFF1 IFF2 IM dwCyclesStart(4) chHoldIntReqCycles chFlags wMemPtr
pub open spec fn z80r_regs(d: Seq<u8>) -> Regs {
    let halted = d[34] & 2 != 0;
    let pc = w16(d[22], d[23]);
    Regs {
        af: w16(d[0], d[1]), bc: w16(d[2], d[3]), de: w16(d[4], d[5]), hl: w16(d[6], d[7]),
        af_alt: w16(d[8], d[9]), bc_alt: w16(d[10], d[11]), de_alt: w16(d[12], d[13]), hl_alt: w16(d[14], d[15]),
        ix: w16(d[16], d[17]), iy: w16(d[18], d[19]), sp: w16(d[20], d[21]),
        // a halted CPU is stored with PC at the HALT; the emulator keeps PC behind it
        pc: if halted { if pc == 0xFFFF { 0u16 } else { (pc + 1) as u16 } } else { pc },
        i: d[24], r: d[25], iff1: d[26] > 0, iff2: d[27] > 0,
        q: d[34] & 4 != 0, mem_ptr: w16(d[35], d[36]),
    }
}

//@ fn rustzx-core/src/emulator/snapshot/szx.rs process_crtr_block props C15
//@ sig
        // (the emulator parameter is unnamed `_` and unused: no frame clause possible or needed)
        requires block_data@.len() >= 37,
//@ end

//@ fn rustzx-core/src/emulator/snapshot/szx.rs process_z80r_block props C14 C15
//@ ret r
//@ sig
        requires block_data@.len() >= 37,
        ensures
            // interrupt mode 3 does not exist: rejected, machine untouched
            block_data@[28] > 2 ==> r is Err && *final(emulator) == *old(emulator),
            block_data@[28] <= 2 ==> r is Ok && ({
                let d = block_data@;
                &&& final(emulator).cpu.regs == z80r_regs(d)
                &&& final(emulator).cpu.im == d[28]
                &&& final(emulator).cpu.skip_interrupt == (d[34] & 1 != 0)
                &&& final(emulator).cpu.halted == (d[34] & 2 != 0)
                &&& final(emulator).controller.frame_clocks as int == (w32(d[29], d[30], d[31], d[32]) as int) % old(emulator).settings.machine.frame_len()
                &&& final(emulator).settings == old(emulator).settings
                &&& final(emulator).controller == (ZXController { frame_clocks: final(emulator).controller.frame_clocks, ..old(emulator).controller })
            }),
//@ end

//@ fn rustzx-core/src/emulator/snapshot/szx.rs process_spcr_block props C14 C15
//@ sig
        requires block_data@.len() >= 8,
        ensures ({
            let d = block_data@;
            let c0 = old(emulator).controller;
            let c1 = final(emulator).controller;
            // paging latch (always 0 on the 16K/48K ids), port 0xFE byte (applied without bus time:
            // the frame clock does not move), then the border field wins
            &&& c1.latch_restores@ == c0.latch_restores@.push(if machine_id < 2 { 0u8 } else { d[1] })
            &&& c1.ula_writes@ == c0.ula_writes@.push(d[3])
            &&& c1.border_color == ZXColor::of_bits(d[0] & 7)
            &&& c1.mixer == c0.mixer && c1.kempston == c0.kempston && c1.mouse == c0.mouse && c1.frame_clocks == c0.frame_clocks
            &&& forall|q: u8| c1.memory.ram_page(q) == c0.memory.ram_page(q)
            &&& final(emulator).cpu == old(emulator).cpu && final(emulator).settings == old(emulator).settings
        }),
//@ at 0 //
        let ghost b0 = block_data@[0];
        assert(b0 & 0x07 <= 7) by(bit_vector);
//@ end

//@ fn rustzx-core/src/emulator/snapshot/szx.rs process_ay_block props C14 C15
//@ sig
        requires block_data@.len() >= 18,
        ensures ({
            let d = block_data@;
            let want = if machine_id < 2 { d[0] & 2 != 0 } else { old(emulator).settings.ay_enabled };
            &&& final(emulator).settings.ay_enabled == want && final(emulator).controller.mixer.use_ay == (if machine_id < 2 && want != old(emulator).settings.ay_enabled { want } else { old(emulator).controller.mixer.use_ay })
            &&& want ==> final(emulator).controller.mixer.ay.current_reg == d[1] && final(emulator).controller.mixer.ay.regs == d.subrange(2, 18)
            &&& !want ==> final(emulator).controller.mixer.ay == old(emulator).controller.mixer.ay
            &&& final(emulator).cpu == old(emulator).cpu
        }),
//@ end

//@ fn rustzx-core/src/emulator/snapshot/szx.rs process_keyb_block props C14 C15
//@ sig
        requires block_data@.len() >= 5,
        ensures final(emulator).controller.kempston is Some == (block_data@[4] & 1 != 0),
            *final(emulator) == (Emulator { controller: ZXController { kempston: final(emulator).controller.kempston, ..old(emulator).controller }, ..*old(emulator) }),
//@ end

//@ fn rustzx-core/src/emulator/snapshot/szx.rs process_amxm_block props C14 C15
//@ sig
        requires block_data@.len() >= 1,
        // Kempston mouse present exactly when the type field says Kempston (2)
        ensures final(emulator).controller.mouse is Some == (block_data@[0] & 2 != 0),
            *final(emulator) == (Emulator { controller: ZXController { mouse: final(emulator).controller.mouse, ..old(emulator).controller }, ..*old(emulator) }),
//@ at 0 //
        let ghost b0 = block_data@[0];
        assert(b0 == 0 ==> b0 & 2 == 0) by(bit_vector);
//@ end

/// page number a RAMP block addresses on this machine id (16K/48K ids use 5,2,0 for the three pages)
pub open spec fn ramp_page(machine_id: u32, p: u8) -> u8 {
    if machine_id < 2 { if p == 5 { 0u8 } else if p == 2 { 1u8 } else if p == 0 { 2u8 } else { p } } else { p }
}

//@ fn rustzx-core/src/emulator/snapshot/szx.rs process_ramp_block props C14 C15
//@ ret r
//@ sig
        requires block_data@.len() >= 3, old(emulator).wf(),
        ensures ({
            let d = block_data@;
            let page = ramp_page(machine_id, d[2]);
            let stored = w16(d[0], d[1]) & 1 == 0;
            &&& final(emulator).wf()
            // a page the machine does not have, or a stored page shorter than 16 KiB: rejected (never a panic)
            &&& (page as int >= old(emulator).ram_pages() || (stored && d.len() - 3 < 16384)) ==> r is Err
            // a stored page: exactly the 16384 bytes after the 3-byte prefix become that RAM bank
            &&& (stored && (page as int) < old(emulator).ram_pages() && d.len() - 3 >= 16384) ==> r is Ok
                    && final(emulator).controller.memory.ram_page(page) == d.subrange(3, 16387)
            // a compressed page: the first 16384 bytes of the inflated payload; a stream that does not
            // inflate, or inflates to less than a page, is rejected
            &&& (!stored && (page as int) < old(emulator).ram_pages()) ==> ({
                    let z = inflate(d.subrange(3, d.len() as int));
                    &&& (z is None || z->Some_0.len() < 16384) ==> r is Err
                    &&& (z is Some && z->Some_0.len() >= 16384) ==> r is Ok
                            && final(emulator).controller.memory.ram_page(page) == z->Some_0.subrange(0, 16384)
                })
            // no other bank is touched, whatever the outcome
            &&& forall|q: u8| q != page ==> final(emulator).controller.memory.ram_page(q) == old(emulator).controller.memory.ram_page(q)
            &&& r is Err ==> forall|q: u8| final(emulator).controller.memory.ram_page(q) == old(emulator).controller.memory.ram_page(q)
            &&& final(emulator).cpu == old(emulator).cpu && final(emulator).settings == old(emulator).settings
        }),
//@ end

} // verus!
fn main() {}
