//@ unit fastload
//@ props C10
//@ assume ZXTape::{next_block,next_block_byte}: abstract reader contract assumed here; proved clause by clause for Tap in unit `tape` (payload_start/hdr/block_bytes_read there = cur_start/hdr/cur_read here); the Empty variant returns Ok(false)/Ok(None) (read from source, 2 lines)
//@ assume ZXController::write_internal / ZXMemory::read: contracts proved in unit `ctl`, restated here over an abstract memory view `peek`
//@ assume Z80::pop_pc_from_stack: PC := word at SP, SP += 2, other registers kept, memory kept (execute_pop_16 is covered by K-z80 step equivalence of RET)
//@ assume the ROM's LD-BYTES routine is represented by spec fn `ld_bytes`, transcribed from the ROM listing 0x0556-0x05E2
use vstd::prelude::*;

verus! {

pub enum Error { Any }
pub type Result<T> = core::result::Result<T, Error>;

//@ item rustzx-z80/src/registers.rs const FLAG_CARRY
//@ item rustzx-z80/src/registers.rs const FLAG_ZERO
//@ item rustzx-z80/src/registers.rs enum RegName16
//@ item rustzx-z80/src/registers.rs struct Regs

#[verifier::external_body]
pub fn vx_u16_to_le_bytes(x: u16) -> (r: [u8; 2])
    ensures r[0] == (x & 0xff) as u8, r[1] == (x >> 8) as u8,
{
    x.to_le_bytes()
}
#[verifier::external_body]
pub fn vx_u16_from_le_bytes(b: [u8; 2]) -> (r: u16)
    ensures r == (b[0] as u16) | ((b[1] as u16) << 8),
{
    u16::from_le_bytes(b)
}

pub open spec fn w16(hi: u8, lo: u8) -> u16 { (lo as u16) | ((hi as u16) << 8) }

impl Regs {
    pub open spec fn ix(&self) -> u16 { w16(self.ixh, self.ixl) }
    pub open spec fn de(&self) -> u16 { w16(self.d, self.e) }

//@ fn rustzx-z80/src/registers.rs impl Regs::swap_af_alt props C10 C01
//@ sig
        ensures final(self).a == old(self).a_alt, final(self).f == old(self).f_alt,
            final(self).a_alt == old(self).a, final(self).f_alt == old(self).f,
            final(self).same_but_af(old(self)),
//@ end
    pub open spec fn same_but_af(&self, o: &Self) -> bool {
        &&& self.pc == o.pc && self.sp == o.sp && self.mem_ptr == o.mem_ptr && self.q == o.q && self.last_q == o.last_q
        &&& self.ixh == o.ixh && self.ixl == o.ixl && self.iyh == o.iyh && self.iyl == o.iyl
        &&& self.r == o.r && self.i == o.i && self.iff1 == o.iff1 && self.iff2 == o.iff2
        &&& self.b == o.b && self.c == o.c && self.d == o.d && self.e == o.e && self.h == o.h && self.l == o.l
        &&& self.b_alt == o.b_alt && self.c_alt == o.c_alt && self.d_alt == o.d_alt && self.e_alt == o.e_alt
        &&& self.h_alt == o.h_alt && self.l_alt == o.l_alt
    }
//@ fn rustzx-z80/src/registers.rs impl Regs::get_flags props C10
//@ ret r
//@ sig
        ensures r == self.f,
//@ end
//@ fn rustzx-z80/src/registers.rs impl Regs::get_acc props C10
//@ ret r
//@ sig
        ensures r == self.a,
//@ end
//@ fn rustzx-z80/src/registers.rs impl Regs::set_acc props C10
//@ ret r
//@ sig
        ensures *final(self) == (Regs { a: value, ..*old(self) }),
//@ end
//@ fn rustzx-z80/src/registers.rs impl Regs::set_flags props C10
//@ ret r
//@ sig
        ensures *final(self) == (Regs { f: value, q: value, ..*old(self) }),
//@ end
//@ fn rustzx-z80/src/registers.rs impl Regs::set_hl props C10
//@ ret r
//@ sig
        ensures final(self).h == (value >> 8) as u8, final(self).l == (value & 0xff) as u8,
            *final(self) == (Regs { h: final(self).h, l: final(self).l, ..*old(self) }),
//@ end
//@ fn rustzx-z80/src/registers.rs impl Regs::get_reg_16 props C10
//@ ret r
//@ sig
        ensures index == RegName16::IX ==> r == self.ix(), index == RegName16::DE ==> r == self.de(),
            index == RegName16::PC ==> r == self.pc, index == RegName16::SP ==> r == self.sp,
            index == RegName16::MemPtr ==> r == self.mem_ptr,
            index == RegName16::AF ==> r == w16(self.a, self.f), index == RegName16::BC ==> r == w16(self.b, self.c),
            index == RegName16::HL ==> r == w16(self.h, self.l), index == RegName16::IY ==> r == w16(self.iyh, self.iyl),
//@ end
//@ fn rustzx-z80/src/registers.rs impl Regs::set_reg_16 props C10
//@ ret r
//@ sig
        ensures
            index == RegName16::IX ==> final(self).ix() == value
                && *final(self) == (Regs { ixh: final(self).ixh, ixl: final(self).ixl, ..*old(self) }),
            index == RegName16::DE ==> final(self).de() == value
                && *final(self) == (Regs { d: final(self).d, e: final(self).e, ..*old(self) }),
            index == RegName16::PC ==> *final(self) == (Regs { pc: value, ..*old(self) }),
            index == RegName16::SP ==> *final(self) == (Regs { sp: value, ..*old(self) }),
            index == RegName16::MemPtr ==> *final(self) == (Regs { mem_ptr: value, ..*old(self) }),
            index == RegName16::AF ==> w16(final(self).a, final(self).f) == value
                && *final(self) == (Regs { a: final(self).a, f: final(self).f, ..*old(self) }),
            index == RegName16::BC ==> w16(final(self).b, final(self).c) == value
                && *final(self) == (Regs { b: final(self).b, c: final(self).c, ..*old(self) }),
            index == RegName16::HL ==> w16(final(self).h, final(self).l) == value
                && *final(self) == (Regs { h: final(self).h, l: final(self).l, ..*old(self) }),
            index == RegName16::IY ==> w16(final(self).iyh, final(self).iyl) == value
                && *final(self) == (Regs { iyh: final(self).iyh, iyl: final(self).iyl, ..*old(self) }),
            r == value,
//@ at 1 /match index/
        proof {
            assert((((value & 0xff) as u8) as u16) | ((((value >> 8) as u8) as u16) << 8) == value) by(bit_vector);
        }
//@ end
}

// ------------------------------------------------------------------ abstract machine parts (R-ext)
//@ item rustzx-z80/src/cpu.rs enum IntMode
//@ item rustzx-z80/src/opcode/types.rs enum Prefix
//@ item rustzx-z80/src/cpu.rs struct Z80

/// CPU-visible memory (abstract view; concrete contracts are proved in unit `ctl`)
#[verifier::external_body]
pub struct ZXMemory { _p: u8 }
pub uninterp spec fn peek(m: ZXMemory, addr: u16) -> u8;
/// memory after a CPU write of `v` at `a` (changes the addressed RAM cell in every window, ROM ignores)
pub uninterp spec fn store(m: ZXMemory, a: u16, v: u8) -> ZXMemory;
impl ZXMemory {
    #[verifier::external_body]
    pub fn read(&self, addr: u16) -> (r: u8)
        ensures r == peek(*self, addr),
    { unimplemented!() }
}

/// the tape as the block reader presents it (contract proved for `Tap` in unit `tape`)
#[verifier::external_body]
pub struct ZXTape { _p: u8 }
impl ZXTape {
    pub uninterp spec fn img(&self) -> Seq<u8>;
    /// offset of the next unread block header
    pub uninterp spec fn hdr(&self) -> int;
    pub uninterp spec fn ended(&self) -> bool;
    /// block being read: payload offset, size, bytes consumed
    pub uninterp spec fn has_cur(&self) -> bool;
    pub uninterp spec fn cur_start(&self) -> int;
    pub uninterp spec fn cur_size(&self) -> int;
    pub uninterp spec fn cur_read(&self) -> int;

    pub open spec fn has_byte(&self) -> bool { !self.ended() && self.has_cur() && self.cur_read() < self.cur_size() }

    #[verifier::external_body]
    pub fn next_block(&mut self) -> (r: Result<bool>)
        ensures
            final(self).img() == old(self).img(),
            (r is Ok && r->Ok_0) ==> !final(self).ended() && final(self).has_cur()
                && old(self).hdr() >= 0 && old(self).hdr() + 2 <= old(self).img().len()
                && final(self).cur_size() == old(self).img()[old(self).hdr()] as int + 256 * old(self).img()[old(self).hdr() + 1] as int
                && final(self).cur_start() == old(self).hdr() + 2
                && final(self).cur_read() == 0
                && final(self).hdr() == final(self).cur_start() + final(self).cur_size(),
            (r is Ok && !r->Ok_0) ==> final(self).ended(),
    { unimplemented!() }

    #[verifier::external_body]
    pub fn next_block_byte(&mut self) -> (r: Result<Option<u8>>)
        ensures
            final(self).img() == old(self).img(), final(self).ended() == old(self).ended(),
            final(self).has_cur() == old(self).has_cur(), final(self).hdr() == old(self).hdr(),
            final(self).cur_start() == old(self).cur_start(), final(self).cur_size() == old(self).cur_size(),
            (r is Ok && r->Ok_0 is Some) ==> old(self).has_byte()
                && 0 <= old(self).cur_start() + old(self).cur_read() < old(self).img().len()
                && r->Ok_0->Some_0 == old(self).img()[old(self).cur_start() + old(self).cur_read()]
                && final(self).cur_read() == old(self).cur_read() + 1,
            (r is Ok && r->Ok_0 is None) ==> !old(self).has_byte() && final(self).cur_read() == old(self).cur_read(),
    { unimplemented!() }
}

pub trait Host { }
#[verifier::reject_recursive_types(H)]
pub struct ZXController<H: Host> {
    pub memory: ZXMemory,
    pub tape: ZXTape,
    pub rest: core::marker::PhantomData<H>,
}
impl<H: Host> ZXController<H> {
    #[verifier::external_body]
    pub fn write_internal(&mut self, addr: u16, data: u8)
        ensures final(self).memory == store(old(self).memory, addr, data), final(self).tape == old(self).tape,
    { unimplemented!() }
}
#[verifier::reject_recursive_types(H)]
pub struct Emulator<H: Host> {
    pub cpu: Z80,
    pub controller: ZXController<H>,
}
impl Z80 {
    /// RET: PC := word at SP, SP += 2 (assumed here; the RET opcode is covered by K-z80)
    #[verifier::external_body]
    pub fn pop_pc_from_stack<H: Host>(&mut self, bus: &mut ZXController<H>)
        ensures
            final(bus).memory == old(bus).memory, final(bus).tape == old(bus).tape,
            final(self).regs == (Regs {
                pc: w16(peek(old(bus).memory, old(self).regs.sp.wrapping_add(1)), peek(old(bus).memory, old(self).regs.sp)),
                sp: old(self).regs.sp.wrapping_add(2), ..old(self).regs }),
            final(self).halted == old(self).halted, final(self).skip_interrupt == old(self).skip_interrupt,
            final(self).int_mode == old(self).int_mode, final(self).active_prefix == old(self).active_prefix,
    { unimplemented!() }
}

// ------------------------------------------------------------------ the ROM's LD-BYTES (0x0556..0x05E2)
pub struct LdResult {
    pub mem: ZXMemory,
    pub ix: u16,
    pub de: u16,
    /// carry flag on return = success
    pub carry: bool,
}

/// LD-BYTES from the point where byte `i` of the block is about to be read.
/// `zset`: the flag byte has already been checked (Z of AF'), `load`: carry of AF' (LOAD vs VERIFY),
/// `a`: expected flag byte, `h`: running XOR of all bytes read.
pub open spec fn ld_bytes(img: Seq<u8>, start: int, size: int, i: int, zset: bool, load: bool, a: u8, h: u8, ix: u16, de: u16, mem: ZXMemory) -> LdResult
    decreases size - i,
{
    if i < 0 || i >= size {
        // LD-EDGE times out on a silent tape: RET NC
        LdResult { mem, ix, de, carry: false }
    } else {
        let l = img[start + i];
        let h2 = h ^ l;                       // LD A,H / XOR L / LD H,A
        if de == 0 {
            LdResult { mem, ix, de, carry: h2 == 0 }      // LD A,H / CP 1 / RET
        } else if !zset {
            // LD-FLAG: XOR L / RET NZ ; INC DE ... DEC DE
            if a ^ l != 0 { LdResult { mem, ix, de, carry: false } }
            else { ld_bytes(img, start, size, i + 1, true, load, a, h2, ix, de, mem) }
        } else if load {
            // LD (IX+0),L ; INC IX ; DEC DE
            ld_bytes(img, start, size, i + 1, true, load, a, h2, ix.wrapping_add(1), (de - 1) as u16, store(mem, ix, l))
        } else {
            // LD-VERIFY: LD A,(IX+0) / XOR L / RET NZ
            if peek(mem, ix) ^ l != 0 { LdResult { mem, ix, de, carry: false } }
            else { ld_bytes(img, start, size, i + 1, true, load, a, h2, ix.wrapping_add(1), (de - 1) as u16, mem) }
        }
    }
}

//@ fn rustzx-core/src/emulator/fastload/tap.rs fast_load_tap props C10
//@ ret r
//@ sig
    ensures
        final(emulator).controller.tape.img() == old(emulator).controller.tape.img(),
        // no block left: the request does not complete and CPU state is not disturbed
        (r is Ok && final(emulator).controller.tape.ended()) ==>
            final(emulator).cpu == old(emulator).cpu && final(emulator).controller.memory == old(emulator).controller.memory,
        // otherwise: exactly the next block is taken and the machine is left as LD-BYTES leaves it
        (r is Ok && !final(emulator).controller.tape.ended()) ==> ({
            let t0 = old(emulator).controller.tape;
            let t1 = final(emulator).controller.tape;
            let r0 = old(emulator).cpu.regs;
            let res = ld_bytes(t0.img(), t1.cur_start(), t1.cur_size(), 0, r0.f_alt & FLAG_ZERO != 0, r0.f_alt & FLAG_CARRY != 0, r0.a_alt, 0,
                               r0.ix(), r0.de(), old(emulator).controller.memory);
            &&& t1.has_cur() && t1.cur_start() == t0.hdr() + 2
            &&& t1.cur_size() == t0.img()[t0.hdr()] as int + 256 * t0.img()[t0.hdr() + 1] as int
            &&& t1.hdr() == t1.cur_start() + t1.cur_size()
            &&& final(emulator).controller.memory == res.mem
            &&& final(emulator).cpu.regs.ix() == res.ix
            &&& final(emulator).cpu.regs.de() == res.de
            &&& (final(emulator).cpu.regs.f & FLAG_CARRY != 0) == res.carry
            // the routine returned to its caller (RET)
            &&& final(emulator).cpu.regs.pc == w16(peek(res.mem, r0.sp.wrapping_add(1)), peek(res.mem, r0.sp))
            &&& final(emulator).cpu.regs.sp == r0.sp.wrapping_add(2)
        }),
//@ loop 0
        invariant_except_break
            emulator.controller.tape.img() == old(emulator).controller.tape.img(),
            !emulator.controller.tape.ended(), emulator.controller.tape.has_cur(),
            emulator.controller.tape.cur_start() == old(emulator).controller.tape.hdr() + 2,
            emulator.controller.tape.cur_size() == old(emulator).controller.tape.img()[old(emulator).controller.tape.hdr()] as int
                + 256 * old(emulator).controller.tape.img()[old(emulator).controller.tape.hdr() + 1] as int,
            emulator.controller.tape.hdr() == emulator.controller.tape.cur_start() + emulator.controller.tape.cur_size(),
            0 <= emulator.controller.tape.cur_read(),
            emulator.cpu.regs == (Regs { a: old(emulator).cpu.regs.a_alt, f: old(emulator).cpu.regs.f_alt,
                    a_alt: old(emulator).cpu.regs.a, f_alt: old(emulator).cpu.regs.f, ..old(emulator).cpu.regs }),
            emulator.cpu.halted == old(emulator).cpu.halted, emulator.cpu.skip_interrupt == old(emulator).cpu.skip_interrupt,
            emulator.cpu.int_mode == old(emulator).cpu.int_mode, emulator.cpu.active_prefix == old(emulator).cpu.active_prefix,
            f & FLAG_CARRY == old(emulator).cpu.regs.f_alt & FLAG_CARRY,
            (f & FLAG_ZERO == 0) ==> acc == old(emulator).cpu.regs.a_alt,
            // the rest of the routine from here gives the same result as the whole routine
            ld_bytes(old(emulator).controller.tape.img(), emulator.controller.tape.cur_start(), emulator.controller.tape.cur_size(),
                     emulator.controller.tape.cur_read(), f & FLAG_ZERO != 0, f & FLAG_CARRY != 0,
                     old(emulator).cpu.regs.a_alt, parity_acc, dest, length, emulator.controller.memory)
              == ld_bytes(old(emulator).controller.tape.img(), emulator.controller.tape.cur_start(), emulator.controller.tape.cur_size(),
                     0, old(emulator).cpu.regs.f_alt & FLAG_ZERO != 0, old(emulator).cpu.regs.f_alt & FLAG_CARRY != 0,
                     old(emulator).cpu.regs.a_alt, 0, old(emulator).cpu.regs.ix(), old(emulator).cpu.regs.de(),
                     old(emulator).controller.memory),
        ensures
            emulator.controller.tape.img() == old(emulator).controller.tape.img(),
            !emulator.controller.tape.ended(), emulator.controller.tape.has_cur(),
            emulator.controller.tape.cur_start() == old(emulator).controller.tape.hdr() + 2,
            emulator.controller.tape.cur_size() == old(emulator).controller.tape.img()[old(emulator).controller.tape.hdr()] as int
                + 256 * old(emulator).controller.tape.img()[old(emulator).controller.tape.hdr() + 1] as int,
            emulator.controller.tape.hdr() == emulator.controller.tape.cur_start() + emulator.controller.tape.cur_size(),
            emulator.cpu.regs == (Regs { a: old(emulator).cpu.regs.a_alt, f: old(emulator).cpu.regs.f_alt,
                    a_alt: old(emulator).cpu.regs.a, f_alt: old(emulator).cpu.regs.f, ..old(emulator).cpu.regs }),
            g_flags is Some, g_flags == result_flags,
            ({
                let res = ld_bytes(old(emulator).controller.tape.img(), emulator.controller.tape.cur_start(), emulator.controller.tape.cur_size(),
                     0, old(emulator).cpu.regs.f_alt & FLAG_ZERO != 0, old(emulator).cpu.regs.f_alt & FLAG_CARRY != 0,
                     old(emulator).cpu.regs.a_alt, 0, old(emulator).cpu.regs.ix(), old(emulator).cpu.regs.de(),
                     old(emulator).controller.memory);
                res.mem == emulator.controller.memory && res.ix == dest && res.de == length
                    && res.carry == (g_flags->Some_0 & FLAG_CARRY != 0)
            }),
        decreases emulator.controller.tape.cur_size() - emulator.controller.tape.cur_read(),
//@ at 1 /f \|= FLAG_ZERO;/
                proof { assert((f | 0x40u8) & 1u8 == f & 1u8 && (f | 0x40u8) & 0x40u8 != 0) by(bit_vector); }
//@ at 1 /'loader: loop/
    let ghost mut g_flags: Option<u8> = None;
    proof { assert(0u8 & 1u8 == 0 && 1u8 & 1u8 == 1 && 0x40u8 & 1u8 == 0) by(bit_vector); }
//@ at 1 /break 'loader;/
                proof { g_flags = result_flags; assert(0u8 & 1u8 == 0 && 1u8 & 1u8 == 1) by(bit_vector); }
//@ at 2 /break 'loader;/
                    proof { g_flags = result_flags; assert(0u8 & 1u8 == 0) by(bit_vector); }
//@ at 3 /break 'loader;/
                    proof { g_flags = result_flags; assert(0u8 & 1u8 == 0) by(bit_vector); }
//@ at 4 /break 'loader;/
            proof { g_flags = result_flags; assert(0x40u8 & 1u8 == 0) by(bit_vector); }
//@ end

} // verus!
fn main() {}
