//@ unit scr
//@ props C14 C15
//@ assume host asset contract (traits below): seek(End(0)) returns the length, seek(Start(0)) moves to 0, read_exact either fills the buffer with the next bytes or returns Err (its loop over an arbitrary `read` is unit hostio); the asset's bytes never change
//@ assume ZXMemory::get_page / ram_page_data_mut contracts are assumed here: proved on the real struct by unit ctl (get_page, wf ==> mapped RAM pages are in range) and Kani harness K-core::memory::page_slices (the &mut page slice is exactly the 16 KiB of its bank)
//@ assume CodeGenerator (rustzx-z80) is external: writes through the bus, keeps the memory map and page validity; which bytes it writes (JP 0x8000 at 0x8000) is not part of the statement
//@ assume refresh_memory_dependent_devices is external here (Kani harness K-core::screen refresh_shadow_*): afterwards the display shadow equals RAM, RAM itself unchanged
use vstd::prelude::*;

verus! {

pub enum IoError { UnexpectedEof, WriteZero, SeekBeforeStart, HostAssetImplFailed }
pub enum ScreenLoadError { InvalidScrFile, MachineNotSupported }
pub enum Error { AssetRead(IoError), ScreenLoad(ScreenLoadError), Other }
pub type Result<T> = core::result::Result<T, Error>;

impl core::convert::From<IoError> for Error {
    #[verifier::external_body]
    fn from(e: IoError) -> (r: Error) { Error::AssetRead(e) }
}
impl core::convert::From<ScreenLoadError> for Error {
    #[verifier::external_body]
    fn from(e: ScreenLoadError) -> (r: Error) { Error::ScreenLoad(e) }
}

//@ item rustzx-core/src/host/io.rs enum SeekFrom
//@ item rustzx-core/src/zx/memory.rs enum Page

pub trait SeekableAsset {
    spec fn bytes(&self) -> Seq<u8>;
    spec fn pos(&self) -> int;
    /// a host asset that does not fail on its own (failures are still allowed in general)
    spec fn healthy(&self) -> bool;
    fn seek(&mut self, pos: SeekFrom) -> (r: core::result::Result<usize, IoError>)
        ensures
            final(self).bytes() == old(self).bytes(), final(self).healthy() == old(self).healthy(),
            old(self).healthy() && (pos is Start || (pos is End && old(self).bytes().len() + pos->End_0 as int >= 0)) ==> r is Ok,
            (r is Ok && pos is Start) ==> final(self).pos() == pos->Start_0 as int && r->Ok_0 == pos->Start_0,
            (r is Ok && pos is End) ==> final(self).pos() == old(self).bytes().len() + pos->End_0 as int && r->Ok_0 as int == final(self).pos(),
    ;
}
pub trait LoadableAsset: SeekableAsset {
    fn read_exact(&mut self, buf: &mut [u8]) -> (r: core::result::Result<(), IoError>)
        ensures
            final(self).bytes() == old(self).bytes(), final(self).healthy() == old(self).healthy(),
            final(buf)@.len() == old(buf)@.len(),
            old(self).healthy() && old(self).pos() >= 0 && old(self).pos() + old(buf)@.len() <= old(self).bytes().len() ==> r is Ok,
            r is Ok ==> old(self).pos() >= 0 && old(self).pos() + old(buf)@.len() <= old(self).bytes().len()
                && final(self).pos() == old(self).pos() + old(buf)@.len()
                && final(buf)@ == old(self).bytes().subrange(old(self).pos(), old(self).pos() + old(buf)@.len() as int),
    ;
}

pub trait Host { }

#[verifier::external_body]
pub struct ZXMemory { _p: u8 }
impl ZXMemory {
    pub uninterp spec fn map_page(&self, addr: u16) -> Page;
    pub uninterp spec fn ram_page(&self, p: u8) -> Seq<u8>;
    pub uninterp spec fn page_valid(&self, p: u8) -> bool;
    pub uninterp spec fn wf(&self) -> bool;

    #[verifier::external_body]
    pub fn get_page(&self, addr: u16) -> (r: Page)
        ensures r == self.map_page(addr), self.wf() && r is Ram ==> self.page_valid(r->Ram_0),
    { unimplemented!() }

    #[verifier::external_body]
    pub fn ram_page_data_mut(&mut self, page: u8) -> (r: &mut [u8])
        requires old(self).page_valid(page),
        ensures r@ == old(self).ram_page(page), r@.len() == 16384,
            final(self).ram_page(page) == final(r)@,
            forall|q: u8| q != page ==> final(self).ram_page(q) == old(self).ram_page(q),
            forall|a: u16| final(self).map_page(a) == old(self).map_page(a),
            final(self).wf() == old(self).wf(),
    { unimplemented!() }
}

#[verifier::external_body]
#[verifier::reject_recursive_types(H)]
pub struct CtlRest<H: Host> { _p: core::marker::PhantomData<H> }
#[verifier::external_body]
pub struct EmuRest { _p: u8 }

/// R-ext shapes: only the fields this loader touches
#[verifier::reject_recursive_types(H)]
pub struct ZXController<H: Host> { pub memory: ZXMemory, pub rest: CtlRest<H> }
pub struct Regs { pub pc: u16, pub other: EmuRest }
pub struct Z80 { pub regs: Regs }
#[verifier::reject_recursive_types(H)]
pub struct Emulator<H: Host> { pub cpu: Z80, pub controller: ZXController<H> }

impl Regs {
    #[verifier::external_body]
    pub fn set_pc(&mut self, pc: u16)
        ensures final(self).pc == pc,
    { unimplemented!() }
}

impl<H: Host> ZXController<H> {
    /// the RAM contents the display shadow was last rebuilt from
    pub uninterp spec fn shadow_src(&self) -> ZXMemory;
    #[verifier::external_body]
    pub fn refresh_memory_dependent_devices(&mut self)
        ensures final(self).memory == old(self).memory, final(self).shadow_src() == final(self).memory,
    { unimplemented!() }
}

/// what CodeGenerator's writes through the bus do to memory (contents only; map and validity kept)
pub uninterp spec fn after_codegen(m: ZXMemory) -> ZXMemory;
pub open spec fn same_shape(n: ZXMemory, m: ZXMemory) -> bool {
    &&& n.wf() == m.wf()
    &&& forall|a: u16| n.map_page(a) == m.map_page(a)
    &&& forall|p: u8| n.page_valid(p) == m.page_valid(p)
}
pub broadcast axiom fn codegen_keeps_map(m: ZXMemory)
    ensures same_shape(#[trigger] after_codegen(m), m),
;

#[verifier::external_body]
#[verifier::reject_recursive_types(H)]
pub struct CodeGenerator<'a, H: Host> { mem: &'a mut ZXController<H> }
impl<'a, H: Host> CodeGenerator<'a, H> {
    #[verifier::external_body]
    pub fn new(mem: &'a mut ZXController<H>) -> (r: Self)
        ensures final(mem).memory == after_codegen(old(mem).memory), final(mem).shadow_src() == old(mem).shadow_src(),
    { unimplemented!() }
    #[verifier::external_body]
    pub fn codegen_set_addr(&mut self, addr: u16) -> (r: &mut Self) { unimplemented!() }
    #[verifier::external_body]
    pub fn jump(&mut self, addr: u16) -> (r: &mut Self) { unimplemented!() }
}

//@ item rustzx-core/src/emulator/screenshot/scr.rs const PRIMARY_SCREEN_MEMORY_SIZE

//@ fn rustzx-core/src/emulator/screenshot/scr.rs load props C14 C15
//@ ret r
//@ sig
        requires old(emulator).controller.memory.wf(),
        ensures
            // C15: any file of another size is rejected before the machine is touched
            asset.bytes().len() != 6912 ==> r is Err && *final(emulator) == *old(emulator),
            // C14: a well-formed file from an asset that does not fail loads
            asset.healthy() && asset.bytes().len() == 6912 && old(emulator).controller.memory.map_page(0x4000) is Ram ==> r is Ok,
            // C14: the 6912 bytes of the file are the start of the RAM bank mapped at 0x4000, nothing else of
            // that bank changes, every other bank is as the code generator left it, the display shadow
            // is rebuilt from the final RAM, and the CPU sits in the generated loop
            r is Ok ==> ({
                let m0 = after_codegen(old(emulator).controller.memory);
                let m1 = final(emulator).controller.memory;
                &&& old(emulator).controller.memory.map_page(0x4000) is Ram
                &&& ({ let bank = old(emulator).controller.memory.map_page(0x4000)->Ram_0;
                       &&& m1.ram_page(bank).subrange(0, 6912) == asset.bytes()
                       &&& m1.ram_page(bank).subrange(6912, 16384) == m0.ram_page(bank).subrange(6912, 16384)
                       &&& forall|q: u8| q != bank ==> m1.ram_page(q) == m0.ram_page(q) })
                &&& forall|a: u16| m1.map_page(a) == old(emulator).controller.memory.map_page(a)
                &&& final(emulator).controller.shadow_src() == m1
                &&& final(emulator).cpu.regs.pc == 0x8000
            }),
//@ at 0 //
        broadcast use codegen_keeps_map;
//@ end

} // verus!
fn main() {}
