//@ unit screen
//@ props C08
//@ assume host FrameBuffer contract: set_color(x, y, c, b) requires x < width, y < height and changes exactly pixel (x, y)
//@ assume ZXSpecs values (spec `specs_ok`) proved by Kani harness K-core::machine
//@ assume Box<[T; N]> is treated as the array it owns (Verus' Box model)
use vstd::prelude::*;

verus! {

//@ item rustzx-core/src/zx/machine/specs.rs struct ZXSpecs
//@ item rustzx-core/src/zx/machine/mod.rs enum ZXMachine
//@ item rustzx-core/src/zx/video/colors.rs enum ZXColor
//@ item rustzx-core/src/zx/video/colors.rs enum ZXBrightness
//@ item rustzx-core/src/zx/video/colors.rs struct ZXAttribute
//@ item rustzx-core/src/zx/constants.rs const CANVAS_WIDTH
//@ item rustzx-core/src/zx/constants.rs const CANVAS_HEIGHT
//@ item rustzx-core/src/zx/constants.rs const ATTR_COLS
//@ item rustzx-core/src/zx/constants.rs const ATTR_ROWS
//@ item rustzx-core/src/zx/constants.rs const CLOCKS_PER_COL
//@ item rustzx-core/src/zx/constants.rs const BITMAP_MAX_REL
//@ item rustzx-core/src/zx/constants.rs const ATTR_BASE_REL
//@ item rustzx-core/src/zx/constants.rs const ATTR_MAX_REL

#[verifier::external_body]
pub fn vx_u16_to_le_bytes(x: u16) -> (r: [u8; 2])
    ensures r[0] == (x & 0xff) as u8, r[1] == (x >> 8) as u8,
{
    x.to_le_bytes()
}

pub open spec fn is48(m: ZXMachine) -> bool { m == ZXMachine::Sinclair48K }
pub open spec fn first_pixel(m: ZXMachine) -> int { if is48(m) { 14336 } else { 14362 } }
pub open spec fn tline(m: ZXMachine) -> int { if is48(m) { 224 } else { 228 } }

pub open spec fn specs_ok(m: ZXMachine, s: ZXSpecs) -> bool {
    &&& s.clocks_first_pixel == first_pixel(m)
    &&& s.clocks_line == tline(m)
    &&& s.clocks_ula_read_origin == first_pixel(m) + 2
}
impl ZXMachine {
    #[verifier::external_body]
    pub fn specs(self) -> (r: &'static ZXSpecs)
        ensures specs_ok(self, *r),
    { unimplemented!() }
}

/// C08 statement: offset of the display byte holding pixel row `y`, byte column `xb`:
/// ((y&0xC0)<<5)|((y&7)<<8)|((y&0x38)<<2)|xb
pub open spec fn display_offset(y: int, xb: int) -> int {
    ((y / 64) * 2048) + ((y % 8) * 256) + (((y / 8) % 8) * 32) + xb
}

/// the offset formula is a bijection between (row, byte column) and 0..0x1800
pub proof fn lemma_offset_digits(y: int, c: int)
    requires 0 <= y < 192, 0 <= c < 32,
    ensures ({
        let o = display_offset(y, c);
        0 <= o < 0x1800 && o % 32 == c && (o / 32) % 8 == (y / 8) % 8 && (o / 256) % 8 == y % 8 && o / 2048 == y / 64
    }),
{
}

pub proof fn lemma_offset_inj(y1: int, c1: int, y2: int, c2: int)
    requires 0 <= y1 < 192, 0 <= c1 < 32, 0 <= y2 < 192, 0 <= c2 < 32,
        display_offset(y1, c1) == display_offset(y2, c2),
    ensures y1 == y2 && c1 == c2,
{
    lemma_offset_digits(y1, c1);
    lemma_offset_digits(y2, c2);
    assert(y1 == (y1 / 64) * 64 + ((y1 / 8) % 8) * 8 + y1 % 8);
    assert(y2 == (y2 / 64) * 64 + ((y2 / 8) % 8) * 8 + y2 % 8);
}

impl ZXColor {
    pub open spec fn of_bits(b: u8) -> ZXColor {
        if b == 0 { ZXColor::Black } else if b == 1 { ZXColor::Blue } else if b == 2 { ZXColor::Red }
        else if b == 3 { ZXColor::Purple } else if b == 4 { ZXColor::Green } else if b == 5 { ZXColor::Cyan }
        else if b == 6 { ZXColor::Yellow } else { ZXColor::White }
    }
//@ fn rustzx-core/src/zx/video/colors.rs impl ZXColor::from_bits props C08 C15
//@ ret r
//@ sig
        requires bits <= 7,
        ensures r == ZXColor::of_bits(bits),
//@ end
}

/// C08 statement: ink = bits 0-2, paper = bits 3-5, BRIGHT = bit 6, FLASH = bit 7
pub open spec fn attr_of(b: u8) -> ZXAttribute {
    ZXAttribute {
        ink: ZXColor::of_bits(b & 7),
        paper: ZXColor::of_bits((b >> 3) & 7),
        brightness: if b & 0x40 != 0 { ZXBrightness::Bright } else { ZXBrightness::Normal },
        flash: b & 0x80 != 0,
    }
}

impl ZXAttribute {
//@ fn rustzx-core/src/zx/video/colors.rs impl ZXAttribute::from_byte props C08
//@ ret r
//@ sig
        ensures r == attr_of(data),
//@ at 1 /ZXAttribute \{/
        proof { assert(data & 0x07 <= 7 && (data >> 3) & 0x07 <= 7) by(bit_vector); }
//@ end

//@ fn rustzx-core/src/zx/video/colors.rs impl ZXAttribute::active_color props C08
//@ ret r
//@ sig
        // a set pixel shows ink, a clear one paper; FLASH cells swap them while the flash phase is on
        ensures r == (if state != (self.flash && enable_flash) { self.ink } else { self.paper }),
//@ end
}

//@ fn rustzx-core/src/utils/screen.rs bitmap_line_rel props C08
//@ ret r
//@ sig
    requires addr < 0x1800,
    // inverse of the statement's offset formula
    ensures r < 192, display_offset(r as int, (addr & 0x1F) as int) == addr as int,
//@ at 1 /let y = /
    proof {
        let a = addr;
        assert(a < 0x1800 ==> ({
            let l = (a & 0xff) as u8; let h = (a >> 8) as u8;
            let y = (h & 0x07) | ((l >> 2) & 0x38) | ((h << 3) & 0xC0);
            y < 192 && ((y as u16 / 64) * 2048) + ((y as u16 % 8) * 256) + (((y as u16 / 8) % 8) * 32) + (a & 0x1F) == a
        })) by(bit_vector);
    }
//@ end

//@ fn rustzx-core/src/utils/screen.rs bitmap_col_rel props C08
//@ ret r
//@ sig
    requires addr < 0x1800,
    ensures r == (addr & 0x1F) as usize, r < 32,
//@ at 1 /\(l & 0x1F\) as usize/
    proof { assert(((addr & 0xff) as u8 & 0x1F) as u16 == addr & 0x1F && (addr & 0x1F) < 32) by(bit_vector); }
//@ end

//@ fn rustzx-core/src/utils/screen.rs attr_row_rel props C08
//@ ret r
//@ sig
    requires 0x1800 <= addr <= 0x1AFF,
    ensures r as int == (addr as int - 0x1800) / 32, r < 24,
//@ at 1 /\(\(addr - ATTR_BASE_REL\)/
    proof { assert(ATTR_COLS == 32 && ATTR_BASE_REL == 0x1800); }
//@ end

//@ fn rustzx-core/src/utils/screen.rs attr_col_rel props C08
//@ ret r
//@ sig
    requires 0x1800 <= addr <= 0x1AFF,
    ensures r as int == (addr as int - 0x1800) % 32, r < 32,
//@ at 1 /\(\(addr - ATTR_BASE_REL\)/
    proof { assert(ATTR_COLS == 32 && ATTR_BASE_REL == 0x1800); }
//@ end

// ------------------------------------------------------------------ beam position in 8x1 blocks
//@ item rustzx-core/src/zx/video/screen.rs struct BlocksCount

/// Beam position in 8x1 blocks at in-frame T-state t: block (y, c) is fetched 4*c T-states into
/// picture line y (lines are tline T apart; the first fetch is 2 T after the line's first pixel
/// T-state 14336/14362); `columns` counts the blocks of the current line already fetched
pub open spec fn bc_of(m: ZXMachine, t: int) -> BlocksCount {
    let org = first_pixel(m) + 2;
    if t < org { BlocksCount { lines: 0, columns: 0 } } else {
        let rel = t - org;
        let l = rel / tline(m);
        let c = (rel % tline(m)) / 4 + 1;
        let l2 = if c > 32 { l + 1 } else { l };
        let c2 = if c > 32 { 0 } else { c };
        if l2 >= 192 { BlocksCount { lines: 192, columns: 0 } }
        else { BlocksCount { lines: l2 as usize, columns: c2 as usize } }
    }
}
/// number of blocks fetched so far
pub open spec fn blocks_passed(m: ZXMachine, t: int) -> int { bc_of(m, t).index() }

impl BlocksCount {
    pub open spec fn index(&self) -> int { self.lines as int * 32 + self.columns as int }
    pub open spec fn wf(&self) -> bool {
        self.lines <= 192 && self.columns <= 32 && (self.lines == 192 ==> self.columns == 0)
    }
    /// scan order
    pub open spec fn le(&self, o: &Self) -> bool {
        self.lines < o.lines || (self.lines == o.lines && self.columns <= o.columns)
    }

//@ fn rustzx-core/src/zx/video/screen.rs impl BlocksCount::new props C08
//@ ret r
//@ sig
        ensures r.lines == lines, r.columns == columns,
//@ end

//@ fn rustzx-core/src/zx/video/screen.rs impl BlocksCount::from_clocks props C08
//@ ret r
//@ sig
        ensures r.wf(), r.index() == blocks_passed(machine, clocks as int), r == bc_of(machine, clocks as int),
//@ end

//@ fn rustzx-core/src/zx/video/screen.rs impl BlocksCount::passed_from props C08 C15
//@ ret r
//@ sig
        requires self.wf(), prev.wf(), prev.le(self),
        ensures r as int == self.index() - prev.index(),
//@ at 1 /match self\.lines/
        proof { assert(ATTR_COLS == 32); }
//@ end
}

// ------------------------------------------------------------------ ZXScreen
pub enum FrameBufferSource { Screen, Border }
pub trait FrameBuffer: Sized {
    spec fn width(&self) -> int;
    spec fn height(&self) -> int;
    spec fn px(&self, x: int, y: int) -> (ZXColor, ZXBrightness);
    fn set_color(&mut self, x: usize, y: usize, color: ZXColor, brightness: ZXBrightness)
        requires (x as int) < old(self).width(), (y as int) < old(self).height(),
        ensures
            final(self).width() == old(self).width(), final(self).height() == old(self).height(),
            final(self).px(x as int, y as int) == (color, brightness),
            forall|i: int, j: int| (i != x as int || j != y as int) ==> #[trigger] final(self).px(i, j) == old(self).px(i, j),
    ;
}

//@ item rustzx-core/src/zx/video/screen.rs struct ScreenBank
//@ item rustzx-core/src/zx/video/screen.rs struct ZXScreen

/// C08 statement: colour of canvas pixel (x, y) decoded from the shadow of a screen bank
pub open spec fn decode_px(bank: ScreenBank, flash: bool, x: int, y: int) -> (ZXColor, ZXBrightness) {
    let byte = bank.bitmap@[y * 32 + x / 8];
    let set = bit_set(byte, (x % 8) as u8);                      // bit 7-(x mod 8)
    let attr = bank.attributes@[(y / 8) * 32 + x / 8];
    (if set != (attr.flash && flash) { attr.ink } else { attr.paper }, attr.brightness)
}
pub open spec fn bit_set(byte: u8, p: u8) -> bool { (byte >> ((7 - p) as u8)) & 1 == 1 }

impl<FB: FrameBuffer> ZXScreen<FB> {
    pub open spec fn wf(&self) -> bool {
        &&& self.last_blocks.wf() && self.active_bank < 2
        &&& self.buffer.width() == 256 && self.buffer.height() == 192
        &&& self.back_buffer.width() == 256 && self.back_buffer.height() == 192
    }
    /// which shadow bank index a RAM bank feeds (48K: bank 0; 128K: banks 5 and 7)
    pub open spec fn local(&self, bank: int) -> Option<usize> {
        if is48(self.machine) { if bank == 0 { Some(0usize) } else { None } }
        else if bank == 5 { Some(0usize) } else if bank == 7 { Some(1usize) } else { None }
    }

//@ fn rustzx-core/src/zx/video/screen.rs impl <FB:FrameBuffer>ZXScreen<FB>::local_bank props C08
//@ ret r
//@ sig
        ensures r == self.local(bank as int), r is Some ==> r->Some_0 < 2,
//@ end

//@ fn rustzx-core/src/zx/video/screen.rs impl <FB:FrameBuffer>ZXScreen<FB>::switch_bank props C08
//@ sig
        requires old(self).wf(),
        ensures final(self).wf(),
            final(self).active_bank == (if old(self).local(bank as int) is Some { old(self).local(bank as int)->Some_0 } else { old(self).active_bank }),
            final(self).banks == old(self).banks, final(self).buffer == old(self).buffer,
            final(self).back_buffer == old(self).back_buffer, final(self).last_blocks == old(self).last_blocks,
            final(self).flash == old(self).flash, final(self).machine == old(self).machine,
            final(self).frame_counter == old(self).frame_counter,
//@ end

//@ fn rustzx-core/src/zx/video/screen.rs impl <FB:FrameBuffer>ZXScreen<FB>::update props C08
//@ sig
        requires old(self).wf(),
        ensures final(self).wf(),
            final(self).active_bank == old(self).active_bank, final(self).buffer == old(self).buffer,
            final(self).back_buffer == old(self).back_buffer, final(self).last_blocks == old(self).last_blocks,
            final(self).flash == old(self).flash, final(self).machine == old(self).machine,
            final(self).frame_counter == old(self).frame_counter,
            // not a display bank: nothing changes
            old(self).local(bank as int) is None ==> final(self).banks == old(self).banks,
            // a display bank: exactly the shadow cell whose display-file offset is rel_addr changes
            old(self).local(bank as int) is Some ==> ({
                let b = old(self).local(bank as int)->Some_0 as int;
                &&& final(self).banks@[1 - b] == old(self).banks@[1 - b]
                &&& forall|y: int, c: int| 0 <= y < 192 && 0 <= c < 32 ==>
                        #[trigger] final(self).banks@[b].bitmap@[y * 32 + c] ==
                            (if display_offset(y, c) == rel_addr as int { data } else { old(self).banks@[b].bitmap@[y * 32 + c] })
                &&& forall|k: int| 0 <= k < 768 ==>
                        #[trigger] final(self).banks@[b].attributes@[k] ==
                            (if 0x1800 + k == rel_addr as int { attr_of(data) } else { old(self).banks@[b].attributes@[k] })
            }),
//@ after 1 /self\.banks\[bank\]\.bitmap\[line \* ATTR_COLS \+ col\] = data;/
                    proof {
                        assert(ATTR_COLS == 32);
                        assert forall|y: int, c: int| 0 <= y < 192 && 0 <= c < 32 && #[trigger] display_offset(y, c) == rel_addr as int
                            implies y == line as int && c == col as int by {
                            lemma_offset_inj(y, c, line as int, col as int);
                        }
                    }
//@ end

    /// pixel of the canvas the ULA draws for shadow bank contents `bk`
    pub open spec fn expect_px(&self, x: int, y: int) -> (ZXColor, ZXBrightness) {
        decode_px(self.banks@[self.active_bank as int], self.flash, x, y)
    }

//@ fn rustzx-core/src/zx/video/screen.rs impl <FB:FrameBuffer>ZXScreen<FB>::process_clocks props C08
//@ sig
        requires old(self).wf(),
            // time only moves forward inside a frame
            old(self).last_blocks.le(&bc_of(old(self).machine, clocks as int)),
        ensures final(self).wf(),
            final(self).banks == old(self).banks, final(self).active_bank == old(self).active_bank,
            final(self).buffer == old(self).buffer, final(self).flash == old(self).flash,
            final(self).machine == old(self).machine, final(self).frame_counter == old(self).frame_counter,
            final(self).last_blocks == (if blocks_passed(old(self).machine, clocks as int) > old(self).last_blocks.index()
                { bc_of(old(self).machine, clocks as int) } else { old(self).last_blocks }),
            // exactly the blocks the beam passed since the last call are drawn, from the shadow as it is now
            forall|x: int, y: int| 0 <= x < 256 && 0 <= y < 192 ==> #[trigger] final(self).back_buffer.px(x, y) ==
                (if old(self).last_blocks.index() <= y * 32 + x / 8 < blocks_passed(old(self).machine, clocks as int)
                    { old(self).expect_px(x, y) } else { old(self).back_buffer.px(x, y) }),
//@ loop 0 iter ob
                invariant
                    self.banks == old(self).banks, self.active_bank == old(self).active_bank, self.active_bank < 2,
                    self.buffer == old(self).buffer, self.flash == old(self).flash, self.machine == old(self).machine,
                    self.frame_counter == old(self).frame_counter, self.last_blocks == old(self).last_blocks,
                    self.back_buffer.width() == 256 && self.back_buffer.height() == 192,
                    curr_block <= 6144, prev_block as int == old(self).last_blocks.index(),
                    forall|x: int, y: int| 0 <= x < 256 && 0 <= y < 192 ==> #[trigger] self.back_buffer.px(x, y) ==
                        (if prev_block as int <= y * 32 + x / 8 < prev_block as int + ob.index@ as int && y * 32 + x / 8 < curr_block as int
                            { old(self).expect_px(x, y) } else { old(self).back_buffer.px(x, y) }),
//@ loop 1 iter ib
                    invariant
                        self.banks == old(self).banks, self.active_bank == old(self).active_bank, self.active_bank < 2,
                        self.buffer == old(self).buffer, self.flash == old(self).flash, self.machine == old(self).machine,
                        self.frame_counter == old(self).frame_counter, self.last_blocks == old(self).last_blocks,
                        self.back_buffer.width() == 256 && self.back_buffer.height() == 192,
                        block < 6144, curr_block <= 6144, prev_block as int == old(self).last_blocks.index(),
                        block as int == prev_block as int + ob.index@ as int,
                        bitmap == self.banks@[self.active_bank as int].bitmap@[block as int],
                        attr == self.banks@[self.active_bank as int].attributes@[(block as int / 256) * 32 + block as int % 32],
                        forall|x: int, y: int| 0 <= x < 256 && 0 <= y < 192 ==> #[trigger] self.back_buffer.px(x, y) ==
                            (if (prev_block as int <= y * 32 + x / 8 < block as int)
                                || (y * 32 + x / 8 == block as int && x % 8 < ib.index@ as int)
                                { old(self).expect_px(x, y) } else { old(self).back_buffer.px(x, y) }),
//@ at 1 /let prev_block = /
            proof { assert(ATTR_COLS == 32); }
//@ at 1 /let state = /
                    proof {
                        assert(ATTR_COLS == 32);
                        let p8 = pixel as u8;
                        assert(p8 < 8 ==> ((((bitmap << p8) & 0x80) != 0) == (((bitmap >> ((7 - p8) as u8)) & 1) == 1))) by(bit_vector);
                    }
//@ end

//@ fn rustzx-core/src/zx/video/screen.rs impl <FB:FrameBuffer>ZXScreen<FB>::switch_flash props C08
//@ sig
        ensures *final(self) == (ZXScreen { flash: !old(self).flash, ..*old(self) }),
//@ end

//@ fn rustzx-core/src/zx/video/screen.rs impl <FB:FrameBuffer>ZXScreen<FB>::new_frame props C08
//@ sig
        requires old(self).wf(), old(self).frame_counter < usize::MAX,
        ensures final(self).wf(),
            // the finished back buffer is delivered, the beam restarts at the top
            final(self).buffer == old(self).back_buffer, final(self).back_buffer == old(self).buffer,
            final(self).last_blocks.index() == 0,
            // FLASH phase toggles every 16 frames
            final(self).flash == (if old(self).frame_counter % 16 == 0 { !old(self).flash } else { old(self).flash }),
            final(self).frame_counter == old(self).frame_counter + 1,
            final(self).banks == old(self).banks, final(self).active_bank == old(self).active_bank,
            final(self).machine == old(self).machine,
//@ end

//@ fn rustzx-core/src/zx/video/screen.rs impl <FB:FrameBuffer>ZXScreen<FB>::frame_buffer props C08
//@ ret r
//@ sig
        ensures *r == self.buffer,
//@ end
}

/// K: the shadow of a display bank equals the decode-relevant bytes of the RAM bank it mirrors
pub open spec fn shadow_ok(ram: Seq<u8>, base: int, sh: ScreenBank) -> bool {
    &&& forall|y: int, c: int| 0 <= y < 192 && 0 <= c < 32 ==>
            #[trigger] sh.bitmap@[y * 32 + c] == ram[base + display_offset(y, c)]
    &&& forall|k: int| 0 <= k < 768 ==> #[trigger] sh.attributes@[k] == attr_of(ram[base + 0x1800 + k])
}

/// a CPU write into a display bank followed by `update` with the same offset keeps K
/// (this is what ZXController::write_internal does through any window)
pub proof fn lemma_write_keeps_shadow(ram: Seq<u8>, ram2: Seq<u8>, base: int, off: int, data: u8, sh: ScreenBank, sh2: ScreenBank)
    requires
        shadow_ok(ram, base, sh), 0 <= off < 16384, 0 <= base, base + 16384 <= ram.len(),
        ram2 == ram.update(base + off, data),
        forall|y: int, c: int| 0 <= y < 192 && 0 <= c < 32 ==>
            #[trigger] sh2.bitmap@[y * 32 + c] == (if display_offset(y, c) == off { data } else { sh.bitmap@[y * 32 + c] }),
        forall|k: int| 0 <= k < 768 ==>
            #[trigger] sh2.attributes@[k] == (if 0x1800 + k == off { attr_of(data) } else { sh.attributes@[k] }),
    ensures shadow_ok(ram2, base, sh2),
{
    assert forall|y: int, c: int| 0 <= y < 192 && 0 <= c < 32 implies
        #[trigger] sh2.bitmap@[y * 32 + c] == ram2[base + display_offset(y, c)] by {
        lemma_offset_digits(y, c);
    }
}

/// a write anywhere else in RAM does not disturb K
pub proof fn lemma_other_write_keeps_shadow(ram: Seq<u8>, ram2: Seq<u8>, base: int, idx: int, data: u8, sh: ScreenBank)
    requires shadow_ok(ram, base, sh), 0 <= base, base + 16384 <= ram.len(), 0 <= idx < ram.len(),
        idx < base || idx >= base + 16384, ram2 == ram.update(idx, data),
    ensures shadow_ok(ram2, base, sh),
{
    assert forall|y: int, c: int| 0 <= y < 192 && 0 <= c < 32 implies
        #[trigger] sh.bitmap@[y * 32 + c] == ram2[base + display_offset(y, c)] by {
        lemma_offset_digits(y, c);
    }
}

/// frame-level statement: once every block has been drawn (the beam passed the last line) from
/// an unchanged shadow, the canvas is the standard decode of the screen memory
pub proof fn lemma_full_frame<FB: FrameBuffer>(s0: ZXScreen<FB>, s1: ZXScreen<FB>, ram: Seq<u8>, base: int)
    requires
        s0.last_blocks.index() == 0, s0.active_bank < 2,
        shadow_ok(ram, base, s0.banks@[s0.active_bank as int]),
        // process_clocks' postcondition for a call that passes the whole picture
        forall|x: int, y: int| 0 <= x < 256 && 0 <= y < 192 ==> #[trigger] s1.back_buffer.px(x, y) ==
            (if 0 <= y * 32 + x / 8 < 6144 { s0.expect_px(x, y) } else { s0.back_buffer.px(x, y) }),
    ensures
        forall|x: int, y: int| 0 <= x < 256 && 0 <= y < 192 ==> #[trigger] s1.back_buffer.px(x, y) == ({
            let byte = ram[base + display_offset(y, x / 8)];
            let attr = attr_of(ram[base + 0x1800 + (y / 8) * 32 + x / 8]);
            (if bit_set(byte, (x % 8) as u8) != (attr.flash && s0.flash) { attr.ink } else { attr.paper }, attr.brightness)
        }),
{
}

} // verus!
fn main() {}
