//@ unit tape
//@ props C10 C11 C12 C15
//@ assume host asset contract (trait LoadableAsset/SeekableAsset below): read_exact either fills the buffer with the next bytes and advances, or returns Err; seek(Start(0)) either moves to 0 or returns Err; the asset's byte string never changes
//@ assume trait dispatch through enum_dispatch(ZXTape) reaches these Tap methods (macro expansion not verified)
use vstd::prelude::*;

verus! {

// ---------------------------------------------------------------- errors (shapes only, R-ext)
pub enum IoError { UnexpectedEof, WriteZero, SeekBeforeStart, HostAssetImplFailed }
pub enum TapeLoadError { InvalidTapFile }
pub enum Error { AssetRead(IoError), TapeLoad(TapeLoadError), Other }
pub type Result<T> = core::result::Result<T, Error>;

impl core::convert::From<IoError> for Error {
    #[verifier::external_body]
    fn from(e: IoError) -> (r: Error) { Error::AssetRead(e) }
}
impl core::convert::From<TapeLoadError> for Error {
    #[verifier::external_body]
    fn from(e: TapeLoadError) -> (r: Error) { Error::TapeLoad(e) }
}

//@ item rustzx-core/src/host/io.rs enum SeekFrom

/// Host asset: abstract view = immutable byte string + position (R-ext, assumed contract)
pub trait SeekableAsset {
    spec fn bytes(&self) -> Seq<u8>;
    spec fn pos(&self) -> int;
    fn seek(&mut self, pos: SeekFrom) -> (r: core::result::Result<usize, IoError>)
        ensures
            final(self).bytes() == old(self).bytes(),
            (r is Ok && pos is Start) ==> final(self).pos() == pos->Start_0 as int,
            r is Err ==> final(self).pos() == old(self).pos(),
    ;
}
pub trait LoadableAsset: SeekableAsset {
    fn read_exact(&mut self, buf: &mut [u8]) -> (r: core::result::Result<(), IoError>)
        ensures
            final(self).bytes() == old(self).bytes(),
            final(buf)@.len() == old(buf)@.len(),
            r is Ok ==> old(self).pos() >= 0 && old(self).pos() + old(buf)@.len() <= old(self).bytes().len()
                && final(self).pos() == old(self).pos() + old(buf)@.len()
                && final(buf)@ == old(self).bytes().subrange(old(self).pos(), old(self).pos() + old(buf)@.len() as int),
    ;
}

//@ item rustzx-core/src/zx/tape/tap.rs const PILOT_LENGTH
//@ item rustzx-core/src/zx/tape/tap.rs const PILOT_PULSES_HEADER
//@ item rustzx-core/src/zx/tape/tap.rs const PILOT_PULSES_DATA
//@ item rustzx-core/src/zx/tape/tap.rs const SYNC1_LENGTH
//@ item rustzx-core/src/zx/tape/tap.rs const SYNC2_LENGTH
//@ item rustzx-core/src/zx/tape/tap.rs const BIT_ONE_LENGTH
//@ item rustzx-core/src/zx/tape/tap.rs const BIT_ZERO_LENGTH
//@ item rustzx-core/src/zx/tape/tap.rs const PAUSE_LENGTH
//@ item rustzx-core/src/zx/tape/tap.rs const BUFFER_SIZE
//@ item rustzx-core/src/zx/tape/tap.rs enum TapeState
//@ item rustzx-core/src/zx/tape/tap.rs struct Tap

pub open spec fn min(a: int, b: int) -> int { if a < b { a } else { b } }

impl<A: LoadableAsset + SeekableAsset> Tap<A> {
    /// bytes of the TAP image
    pub open spec fn img(&self) -> Seq<u8> { self.asset.bytes() }

    /// offset (in the image) of the payload of the block being read
    pub open spec fn payload_start(&self) -> int {
        self.asset.pos() - min(self.current_block_size->Some_0 as int, self.buffer_offset as int + 128)
    }

    /// representation invariant of the block reader
    pub open spec fn reader_inv(&self) -> bool {
        (!self.tape_ended && self.current_block_size is Some) ==> {
            let size = self.current_block_size->Some_0 as int;
            &&& size <= 65535
            &&& self.buffer_offset as int % 128 == 0
            &&& self.buffer_offset <= self.block_bytes_read
            &&& self.block_bytes_read as int <= size
            &&& self.block_bytes_read as int <= self.buffer_offset as int + 128
            &&& (self.buffer_offset as int) < size || size == 0 || self.buffer_offset == 0
            &&& self.payload_start() >= 0
            &&& self.asset.pos() <= self.img().len()
            &&& forall|j: int| 0 <= j < min(128, size - self.buffer_offset as int) ==>
                    #[trigger] self.buffer@[j] == self.img()[self.payload_start() + self.buffer_offset as int + j]
        }
    }

    /// the reader has an unread byte of the current block
    pub open spec fn has_byte(&self) -> bool {
        !self.tape_ended && self.current_block_size is Some
            && (self.block_bytes_read as int) < self.current_block_size->Some_0 as int
    }

//@ fn rustzx-core/src/zx/tape/tap.rs impl <A:LoadableAsset+SeekableAsset>Tap<A>::from_asset props C10 C12 C15
//@ ret r
//@ sig
        // a freshly inserted tape: stopped, at the position the asset is at, no block selected
        ensures r is Ok, r->Ok_0.sm_wf(), !r->Ok_0.playing(), r->Ok_0.resume() == TapeState::Stop,
            r->Ok_0.asset == asset, r->Ok_0.current_block_size is None, !r->Ok_0.tape_ended,
            r->Ok_0.delay == 0, !r->Ok_0.curr_bit,
//@ end

//@ fn rustzx-core/src/zx/tape/tap.rs impl <A:LoadableAsset+SeekableAsset>TapeImplforTap<A>::next_block_byte props C10 C11 C15
//@ ret r
//@ sig
        requires old(self).reader_inv(),
        ensures
            final(self).img() == old(self).img(),
            final(self).state == old(self).state, final(self).prev_state == old(self).prev_state,
            final(self).curr_bit == old(self).curr_bit, final(self).curr_byte == old(self).curr_byte,
            final(self).delay == old(self).delay, final(self).tape_ended == old(self).tape_ended,
            r is Ok ==> final(self).reader_inv(),
            // a byte is delivered exactly when the cursor is inside the block: it is the cursor's byte
            (r is Ok && r->Ok_0 is Some) ==> old(self).has_byte()
                && r->Ok_0->Some_0 == old(self).img()[old(self).payload_start() + old(self).block_bytes_read as int]
                && final(self).block_bytes_read == old(self).block_bytes_read + 1
                && final(self).current_block_size == old(self).current_block_size
                && final(self).payload_start() == old(self).payload_start(),
            (r is Ok && r->Ok_0 is None) ==> !old(self).has_byte()
                && final(self).block_bytes_read == old(self).block_bytes_read
                && final(self).current_block_size == old(self).current_block_size
                && final(self).buffer_offset == old(self).buffer_offset
                && final(self).asset == old(self).asset && final(self).buffer == old(self).buffer,
            // a read failure can only come from the asset (refill of the 128-byte window)
            r is Err ==> old(self).has_byte(),
//@ end

    /// image offset of the next unread block header
    pub open spec fn hdr(&self) -> int {
        if self.current_block_size is Some { self.payload_start() + self.current_block_size->Some_0 as int }
        else { self.asset.pos() }
    }

    pub open spec fn same_deck(&self, o: &Self) -> bool {
        &&& self.state == o.state && self.prev_state == o.prev_state
        &&& self.curr_bit == o.curr_bit && self.curr_byte == o.curr_byte && self.delay == o.delay
    }

//@ fn rustzx-core/src/zx/tape/tap.rs impl <A:LoadableAsset+SeekableAsset>TapeImplforTap<A>::next_block props C10 C11 C15
//@ ret r
//@ sig
        requires old(self).reader_inv(),
        ensures
            final(self).img() == old(self).img(), final(self).same_deck(old(self)),
            r is Ok ==> final(self).reader_inv(),
            // exactly the next block of the image: 2-byte little-endian length, then the payload
            (r is Ok && r->Ok_0) ==> !old(self).tape_ended && !final(self).tape_ended
                && old(self).hdr() >= 0 && old(self).hdr() + 2 <= old(self).img().len()
                && final(self).current_block_size is Some
                && final(self).current_block_size->Some_0 as int ==
                    old(self).img()[old(self).hdr()] as int + 256 * old(self).img()[old(self).hdr() + 1] as int
                && final(self).payload_start() == old(self).hdr() + 2
                && final(self).block_bytes_read == 0,
            // no block left: the tape is (and stays) ended
            (r is Ok && !r->Ok_0) ==> final(self).tape_ended,
//@ loop 0
            invariant
                self.reader_inv(), self.img() == old(self).img(), self.same_deck(old(self)),
                !self.tape_ended, self.tape_ended == old(self).tape_ended,
                self.hdr() == old(self).hdr(),
            decreases
                (if self.has_byte() { self.current_block_size->Some_0 as int - self.block_bytes_read as int } else { 0 }),
//@ end

//@ fn rustzx-core/src/zx/tape/tap.rs impl <A:LoadableAsset+SeekableAsset>TapeImplforTap<A>::can_fast_load props C10
//@ ret r
//@ sig
        ensures r == (self.state == TapeState::Stop),
//@ end

//@ fn rustzx-core/src/zx/tape/tap.rs impl <A:LoadableAsset+SeekableAsset>TapeImplforTap<A>::current_bit props C11 C12
//@ ret r
//@ sig
        ensures r == self.curr_bit,
//@ end

    // ------------------------------------------------------------ C12: deck view
    pub open spec fn playing(&self) -> bool { self.state != TapeState::Stop }

    /// the state the waveform continues from at the next `play` (Stop = "start with the next block")
    pub open spec fn resume(&self) -> TapeState {
        if self.state != TapeState::Stop { self.state } else { self.prev_state }
    }

    /// everything that defines the position on the tape
    pub open spec fn same_position(&self, o: &Self) -> bool {
        &&& self.asset == o.asset && self.buffer == o.buffer && self.buffer_offset == o.buffer_offset
        &&& self.block_bytes_read == o.block_bytes_read && self.current_block_size == o.current_block_size
        &&& self.tape_ended == o.tape_ended
        &&& self.curr_bit == o.curr_bit && self.curr_byte == o.curr_byte && self.delay == o.delay
    }

    /// position == start of tape, the next play starts block 0 with a full pilot
    pub open spec fn at_start(&self) -> bool {
        &&& self.asset.pos() == 0 && self.current_block_size is None && !self.tape_ended
        &&& self.block_bytes_read == 0 && self.buffer_offset == 0
        &&& self.delay == 0 && !self.curr_bit
        &&& (self.resume() == TapeState::Stop || self.resume() == TapeState::Play)
    }

//@ fn rustzx-core/src/zx/tape/tap.rs impl <A:LoadableAsset+SeekableAsset>TapeImplforTap<A>::stop props C12
//@ sig
        ensures
            !final(self).playing(),
            // position (incl. the point inside the waveform) is kept, so stop;stop == stop
            final(self).resume() == old(self).resume(),
            final(self).same_position(old(self)),
//@ end

//@ fn rustzx-core/src/zx/tape/tap.rs impl <A:LoadableAsset+SeekableAsset>TapeImplforTap<A>::play props C12
//@ sig
        ensures
            final(self).playing(),
            final(self).same_position(old(self)),
            // play while playing is a no-op; play after stop resumes exactly where it stopped
            final(self).state == (if old(self).resume() == TapeState::Stop { TapeState::Play } else { old(self).resume() }),
//@ end

//@ fn rustzx-core/src/zx/tape/tap.rs impl <A:LoadableAsset+SeekableAsset>TapeImplforTap<A>::rewind props C12 C15
//@ ret r
//@ sig
        ensures
            final(self).img() == old(self).img(),
            final(self).playing() == old(self).playing(),
            r is Ok ==> final(self).at_start() && final(self).reader_inv(),
//@ end

    // ------------------------------------------------------------ C11: pulse state machine
    pub open spec fn one_hot(m: u8) -> bool {
        m == 1 || m == 2 || m == 4 || m == 8 || m == 16 || m == 32 || m == 64 || m == 128
    }

    pub open spec fn sm_wf(&self) -> bool {
        &&& self.reader_inv()
        &&& match self.state {
                TapeState::Pilot { pulses_left } => pulses_left >= 1,
                TapeState::NextBit { mask } => Self::one_hot(mask),
                TapeState::BitHalf { half_bit_delay, mask } => Self::one_hot(mask)
                    && (half_bit_delay == 855 || half_bit_delay == 1710),
                _ => true,
            }
    }

    pub open spec fn reader_same(&self, o: &Self) -> bool {
        &&& self.asset == o.asset && self.buffer == o.buffer && self.buffer_offset == o.buffer_offset
        &&& self.block_bytes_read == o.block_bytes_read && self.current_block_size == o.current_block_size
        &&& self.tape_ended == o.tape_ended
    }

    /// nominal pulse length of one half of bit `mask` of `byte`
    pub open spec fn bit_len(byte: u8, mask: u8) -> usize { if byte & mask == 0 { 855 } else { 1710 } }

    /// C11: what one edge of the waveform does (called with delay == 0, playing)
    pub open spec fn edge(o: &Self, n: &Self) -> bool {
        match o.state {
            TapeState::Pilot { pulses_left } => n.reader_same(o) && n.curr_byte == o.curr_byte
                && n.curr_bit == !o.curr_bit
                && (if pulses_left == 1 { n.delay == 667 && n.state == TapeState::Sync }
                    else { n.delay == 2168 && n.state == (TapeState::Pilot { pulses_left: (pulses_left - 1) as usize }) }),
            TapeState::Sync => n.reader_same(o) && n.curr_byte == o.curr_byte
                && n.curr_bit == !o.curr_bit && n.delay == 735 && n.state == (TapeState::NextBit { mask: 0x80 }),
            TapeState::NextBit { mask } => n.reader_same(o) && n.curr_byte == o.curr_byte
                && n.curr_bit == !o.curr_bit && n.delay == Self::bit_len(o.curr_byte, mask)
                && n.state == (TapeState::BitHalf { half_bit_delay: Self::bit_len(o.curr_byte, mask), mask }),
            // second half of the bit: same length; then next bit (MSB first) or next byte
            TapeState::BitHalf { half_bit_delay, mask } => n.reader_same(o) && n.curr_byte == o.curr_byte
                && n.curr_bit == !o.curr_bit && n.delay == half_bit_delay
                && n.state == (if mask == 1 { TapeState::NextByte } else { TapeState::NextBit { mask: (mask / 2) as u8 } }),
            // every byte of the block incl. flag and checksum, in order; then the pause
            TapeState::NextByte =>
                if o.has_byte() {
                    n.curr_byte == o.img()[o.payload_start() + o.block_bytes_read as int]
                    && n.block_bytes_read == o.block_bytes_read + 1
                    && n.current_block_size == o.current_block_size && n.payload_start() == o.payload_start()
                    && n.curr_bit == !o.curr_bit && n.delay == Self::bit_len(n.curr_byte, 0x80)
                    && n.state == (TapeState::BitHalf { half_bit_delay: Self::bit_len(n.curr_byte, 0x80), mask: 0x80 })
                } else {
                    n.reader_same(o) && n.curr_byte == o.curr_byte
                    && n.curr_bit == !o.curr_bit && n.delay == 3_500_000 && n.state == TapeState::Play
                },
            TapeState::Pause => n.reader_same(o) && n.curr_byte == o.curr_byte
                && n.curr_bit == !o.curr_bit && n.delay == 3_500_000 && n.state == TapeState::Play,
            // next block: pilot of 8063 pulses for a 0x00 flag byte, 3223 otherwise; level set high
            TapeState::Play =>
                if n.state == TapeState::Stop {
                    // ran off the end of the tape: deck stopped, position back at the start
                    n.at_start()
                } else {
                    &&& o.hdr() >= 0 && o.hdr() + 2 <= o.img().len()
                    &&& n.current_block_size is Some
                    &&& n.current_block_size->Some_0 as int == o.img()[o.hdr()] as int + 256 * o.img()[o.hdr() + 1] as int
                    &&& n.payload_start() == o.hdr() + 2 && n.block_bytes_read == 1
                    &&& n.curr_byte == o.img()[o.hdr() + 2]
                    &&& n.curr_bit && n.delay == 2168
                    &&& n.state == (TapeState::Pilot { pulses_left: if n.curr_byte == 0 { 8063usize } else { 3223usize } })
                },
            TapeState::Stop => true,
        }
    }

//@ fn rustzx-core/src/zx/tape/tap.rs impl <A:LoadableAsset+SeekableAsset>TapeImplforTap<A>::process_clocks props C11 C12 C15
//@ ret r
//@ sig
        requires old(self).sm_wf(),
        ensures
            final(self).img() == old(self).img(),
            r is Ok ==> final(self).sm_wf(),
            // C12: while stopped the EAR level is frozen and no tape is consumed
            !old(self).playing() ==> r is Ok && final(self).same_position(old(self))
                && final(self).state == old(self).state && final(self).prev_state == old(self).prev_state,
            // C11: inside a pulse only the countdown moves (no edge before the nominal length has elapsed)
            old(self).playing() && old(self).delay > 0 ==> r is Ok && final(self).reader_same(old(self))
                && final(self).state == old(self).state && final(self).prev_state == old(self).prev_state
                && final(self).curr_bit == old(self).curr_bit && final(self).curr_byte == old(self).curr_byte
                && final(self).delay as int == (if clocks > old(self).delay { 0 } else { old(self).delay as int - clocks as int }),
            // C11: the pulse has elapsed: exactly one edge, next pulse starts with its nominal length
            old(self).playing() && old(self).delay == 0 && r is Ok ==> Self::edge(old(self), final(self))
                && (final(self).playing() ==> final(self).prev_state == old(self).prev_state),
//@ loop 0
            invariant_except_break
                self.sm_wf(), self.img() == old(self).img(),
                self.prev_state == old(self).prev_state,
                old(self).playing() && old(self).delay == 0, self.delay == 0,
                // first iteration, or the fall-through from NextByte / Play(no block)
                (self.state == old(self).state && self.same_position(old(self)))
                || (old(self).state == TapeState::NextByte && old(self).has_byte()
                    && self.state == (TapeState::NextBit { mask: 0x80 })
                    && self.curr_byte == old(self).img()[old(self).payload_start() + old(self).block_bytes_read as int]
                    && self.block_bytes_read == old(self).block_bytes_read + 1
                    && self.current_block_size == old(self).current_block_size
                    && self.payload_start() == old(self).payload_start()
                    && self.curr_bit == old(self).curr_bit)
                || (old(self).state == TapeState::NextByte && !old(self).has_byte()
                    && self.state == TapeState::Pause && self.same_position(old(self)))
                || (old(self).state == TapeState::Play && self.state == TapeState::Stop && self.tape_ended),
            ensures
                self.img() == old(self).img(), self.sm_wf(), Self::edge(old(self), self),
                self.playing() ==> self.prev_state == old(self).prev_state,
            decreases
                (if self.state == TapeState::NextByte || self.state == TapeState::Play { 2int } else { 1int }),
//@ at 1 /mask >>= 1;/
                    proof { assert(mask >> 1 == mask / 2) by(bit_vector); }
//@ end
}

// ------------------------------------------------------------ C11: countdown lemma
/// the contract of `process_clocks` inside a pulse: saturating countdown
pub open spec fn tick(delay: int, c: int) -> int { if c > delay { 0 } else { delay - c } }

pub open spec fn sum(c: Seq<int>, k: nat) -> int
    decreases k,
{
    if k == 0 { 0 } else { sum(c, (k - 1) as nat) + c[k - 1] }
}

/// delay after the first k bus-wait steps following an edge that started a pulse of nominal length `l`
pub open spec fn delay_after(l: int, c: Seq<int>, k: nat) -> int
    decreases k,
{
    if k == 0 { l } else { tick(delay_after(l, c, (k - 1) as nat), c[k - 1]) }
}

pub open spec fn steps_ok(c: Seq<int>) -> bool { forall|i: int| 0 <= i < c.len() ==> 1 <= #[trigger] c[i] <= 16 }

pub proof fn lemma_countdown(l: int, c: Seq<int>, k: nat)
    requires l >= 0, steps_ok(c), k <= c.len(),
    ensures delay_after(l, c, k) == (if sum(c, k) >= l { 0 } else { l - sum(c, k) }), sum(c, k) >= 0,
    decreases k,
{
    if k > 0 {
        lemma_countdown(l, c, (k - 1) as nat);
    }
}

/// C11: with bus-wait steps of 1..16 T, the next edge (made by the first call that finds the
/// countdown at 0, i.e. call j+1 where j is the first step count with delay 0) comes no earlier
/// than the nominal length and at most 31 T later
pub proof fn lemma_pulse_length(l: int, c: Seq<int>, j: nat)
    requires l >= 1, steps_ok(c), 1 <= j, j + 1 <= c.len(),
        delay_after(l, c, j) == 0, delay_after(l, c, (j - 1) as nat) > 0,
    ensures l + 1 <= sum(c, (j + 1) as nat) <= l + 31,
{
    lemma_countdown(l, c, j);
    lemma_countdown(l, c, (j - 1) as nat);
    assert(sum(c, j) == sum(c, (j - 1) as nat) + c[j - 1]);
    assert(sum(c, (j + 1) as nat) == sum(c, j) + c[j as int]);
}

/// shims for std functions whose signatures Verus cannot match (R-shim, assumed)
#[verifier::external_body]
pub fn vx_u16_from_le_bytes(b: [u8; 2]) -> (r: u16)
    ensures r as int == b[0] as int + 256 * b[1] as int,
{
    u16::from_le_bytes(b)
}

} // verus!
fn main() {}
