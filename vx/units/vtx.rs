//@ unit vtx
//@ props C20 C15
//@ assume R-block: the transposition loop of Vtx::load is lifted verbatim into `transpose` (everything before/after the loop is dropped; weaker than whole-function extraction)
use vstd::prelude::*;

verus! {

//@ item vtx/src/lib.rs const AY_REGISTER_COUNT

/// only the field the two accessors use (R-ext: struct shape)
pub struct Vtx {
    pub frame_data: Vec<u8>,
}

impl Vtx {
//@ fn vtx/src/lib.rs impl Vtx::frames_count props C20
//@ ret r
//@ sig
        ensures r as int == self.frame_data@.len() / 14,
//@ end

//@ fn vtx/src/lib.rs impl Vtx::frame_registers props C20 C15
//@ ret r
//@ sig
        requires index <= usize::MAX / 16,
        // frame k's fourteen register values, or None past the end; never reads out of range
        ensures
            (index as int + 1) * 14 <= self.frame_data@.len() ==> r is Some
                && r->Some_0@ == self.frame_data@.subrange(index as int * 14, index as int * 14 + 14),
            (index as int + 1) * 14 > self.frame_data@.len() ==> r is None,
//@ end
}

/// R-block: the transposition loop of `Vtx::load`, lines between
/// `let frames_count = ...` and the construction of `Self`
pub fn transpose(transposed_frame_data: &Vec<u8>) -> (frame_data: Vec<u8>)
    requires transposed_frame_data@.len() % 14 == 0,
    // register-major -> frame-major without losing or reordering a byte
    ensures frame_data@.len() == transposed_frame_data@.len(),
        forall|f: int, r: int| 0 <= f < transposed_frame_data@.len() / 14 && 0 <= r < 14 ==>
            #[trigger] frame_data@[f * 14 + r] == transposed_frame_data@[r * (transposed_frame_data@.len() as int / 14) + f],
{
//@ block vtx/src/lib.rs impl Vtx::load /let frames_count = transposed_frame_data\.len\(\) \/ AY_REGISTER_COUNT;/ /frame_data\.push\(transposed_frame_data\[reg_idx \* frames_count \+ frame_idx\]\);\s*\}/
//@ loop 0 iter it
        invariant
            frames_count as int == transposed_frame_data@.len() as int / 14,
            transposed_frame_data@.len() % 14 == 0,
            frame_data@.len() == it.index@,
            forall|k: int| 0 <= k < it.index@ ==> #[trigger] frame_data@[k] == transposed_frame_data@[(k % 14) * (frames_count as int) + k / 14],
//@ at 1 /frame_data\.push\(/
            proof {
                let n = transposed_frame_data@.len() as int;
                let fc = frames_count as int;
                assert(fc * 14 == n);
                assert(reg_idx < 14 && (frame_idx as int) < fc);
                assert(reg_idx as int * fc + frame_idx as int <= 13 * fc + frame_idx as int) by(nonlinear_arith)
                    requires 0 <= reg_idx as int <= 13, 0 <= fc;
            }
//@ end
    frame_data
}

} // verus!
fn main() {}
