//@ unit romload
//@ props C06 C15
//@ assume host asset contract: read_exact either fills the buffer with the next bytes of the asset or returns Err (its loop over an arbitrary `read` is unit hostio); RomSet::next_asset hands out the remaining assets in order, each positioned at its start
//@ assume ZXMachine::specs().rom_pages is 1 (48K) / 2 (128K) (Kani K-core::machine) and ZXMemory has that many ROM pages (ZXMemory::new contract, unit ctl); rom_page_data_mut returns exactly the 16 KiB of its page (Kani K-core::memory::page_slices)
use vstd::prelude::*;

verus! {

pub enum IoError { UnexpectedEof, WriteZero, SeekBeforeStart, HostAssetImplFailed }
pub enum RomLoadError { MoreAssetsRequired }
pub enum Error { AssetRead(IoError), RomLoad(RomLoadError), Other }
pub type Result<T> = core::result::Result<T, Error>;
impl core::convert::From<IoError> for Error {
    #[verifier::external_body]
    fn from(e: IoError) -> (r: Error) { Error::AssetRead(e) }
}
impl core::convert::From<RomLoadError> for Error {
    #[verifier::external_body]
    fn from(e: RomLoadError) -> (r: Error) { Error::RomLoad(e) }
}

pub trait LoadableAsset {
    spec fn bytes(&self) -> Seq<u8>;
    spec fn pos(&self) -> int;
    spec fn healthy(&self) -> bool;
    fn read_exact(&mut self, buf: &mut [u8]) -> (r: core::result::Result<(), IoError>)
        ensures
            final(self).bytes() == old(self).bytes(), final(self).healthy() == old(self).healthy(),
            final(buf)@.len() == old(buf)@.len(),
            old(self).healthy() && old(self).pos() >= 0 && old(self).pos() + old(buf)@.len() <= old(self).bytes().len() ==> r is Ok,
            r is Ok ==> old(self).pos() >= 0 && old(self).pos() + old(buf)@.len() <= old(self).bytes().len()
                && final(buf)@ == old(self).bytes().subrange(old(self).pos(), old(self).pos() + old(buf)@.len() as int),
    ;
}
pub enum RomFormat { Binary16KPages }
pub trait RomSet {
    type Asset: LoadableAsset;
    /// ghost: the byte strings of the assets not handed out yet
    spec fn remaining(&self) -> Seq<Seq<u8>>;
    spec fn healthy(&self) -> bool;
    fn format(&self) -> RomFormat;
    fn next_asset(&mut self) -> (r: Option<Self::Asset>)
        ensures
            final(self).healthy() == old(self).healthy(),
            old(self).remaining().len() == 0 ==> r is None && final(self).remaining() == old(self).remaining(),
            old(self).remaining().len() > 0 ==> r is Some && r->Some_0.bytes() == old(self).remaining()[0] && r->Some_0.pos() == 0
                && r->Some_0.healthy() == old(self).healthy()
                && final(self).remaining() == old(self).remaining().subrange(1, old(self).remaining().len() as int),
    ;
}

pub trait Host { }
//@ item rustzx-core/src/zx/machine/mod.rs enum ZXMachine
pub struct ZXSpecs { pub rom_pages: u8 }
impl ZXMachine {
    #[verifier::external_body]
    pub fn specs(self) -> (r: &'static ZXSpecs)
        ensures r.rom_pages == (if self == ZXMachine::Sinclair48K { 1u8 } else { 2u8 }),
    { unimplemented!() }
}

#[verifier::external_body]
pub struct ZXMemory { _p: u8 }
impl ZXMemory {
    pub uninterp spec fn rom_page(&self, p: u8) -> Seq<u8>;
    pub uninterp spec fn rom_pages(&self) -> int;
    #[verifier::external_body]
    pub fn rom_page_data_mut(&mut self, page: u8) -> (r: &mut [u8])
        requires (page as int) < old(self).rom_pages(),
        ensures r@ == old(self).rom_page(page), r@.len() == 16384,
            final(self).rom_page(page) == final(r)@, final(self).rom_pages() == old(self).rom_pages(),
            forall|q: u8| q != page ==> final(self).rom_page(q) == old(self).rom_page(q),
    { unimplemented!() }
}
#[verifier::external_body]
#[verifier::reject_recursive_types(H)]
pub struct CtlRest<H: Host> { _p: core::marker::PhantomData<H> }
#[verifier::reject_recursive_types(H)]
pub struct ZXController<H: Host> { pub memory: ZXMemory, pub rest: CtlRest<H> }
pub struct RustzxSettings { pub machine: ZXMachine }
#[verifier::external_body]
pub struct EmuRest { _p: u8 }
#[verifier::reject_recursive_types(H)]
pub struct Emulator<H: Host> { pub settings: RustzxSettings, pub controller: ZXController<H>, pub rest: EmuRest }

impl<H: Host> Emulator<H> {
    pub open spec fn pages(&self) -> int { if self.settings.machine == ZXMachine::Sinclair48K { 1 } else { 2 } }

//@ fn rustzx-core/src/emulator/mod.rs impl <H:Host>Emulator<H>::load_rom_binary_16k_pages props C06 C15
//@ ret r
//@ sig
        requires old(self).controller.memory.rom_pages() == old(self).pages(),
        ensures
            // C06: ROM page i is the first 16 KiB of the i-th supplied image, for every page of the machine
            r is Ok ==> rom.remaining().len() >= old(self).pages()
                && forall|i: int| 0 <= i < old(self).pages() ==>
                    #[trigger] final(self).controller.memory.rom_page(i as u8) == rom.remaining()[i].subrange(0, 16384),
            // C15: too few images is an error, not a panic
            rom.remaining().len() < old(self).pages() ==> r is Err,
            final(self).settings == old(self).settings,
//@ at 0 //
        let ghost rom0 = rom;
//@ loop 0 iter it
            invariant
                page_count as int == old(self).pages(), self.settings == old(self).settings,
                self.controller.memory.rom_pages() == old(self).pages(),
                rom.healthy() == rom0.healthy(),
                rom0.remaining().len() >= it.index@ as int,
                rom.remaining() == rom0.remaining().subrange(it.index@ as int, rom0.remaining().len() as int),
                forall|i: int| 0 <= i < it.index@ as int ==>
                    #[trigger] self.controller.memory.rom_page(i as u8) == rom0.remaining()[i].subrange(0, 16384),
//@ at 1 /let mut page_asset = rom\.next_asset\(\)/
            proof {
                assert(page_index as int == it.index@ as int && page_index < page_count);
                if rom0.remaining().len() > it.index@ as int {
                    assert(rom.remaining().len() > 0);
                    assert(rom.remaining()[0] == rom0.remaining()[it.index@ as int]);
                }
            }
//@ end
}

} // verus!
fn main() {}
