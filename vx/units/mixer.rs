//@ unit mixer
//@ props C19 C16
//@ assume sample_count_for_frame_fraction (one f64 expression) is external here with contract r <= samples_per_frame, monotone; proved by Kani harnesses K-core::audio-float sample_index_range (every rate) and sample_index_floor (common rates)
//@ assume gen_sample (float mixing of beeper and AY) is external: returns some sample, touches only the devices and last_sample
use vstd::prelude::*;
use std::collections::VecDeque;

verus! {

//@ item rustzx-core/src/zx/constants.rs const FPS

#[verifier::external_body]
pub struct Devices { _p: u8 }
#[verifier::external_body]
#[verifier::reject_recursive_types(T)]
pub struct SoundSample<T> { _p: core::marker::PhantomData<T> }
impl<T> Clone for SoundSample<T> {
    #[verifier::external_body]
    fn clone(&self) -> Self { unimplemented!() }
}
impl<T> Copy for SoundSample<T> {}

/// ZXMixer with the float/device fields folded into `dev` (R-ext: struct shape only); the
/// queue / cursor / rate fields are the real ones
pub struct ZXMixer {
    pub dev: Devices,
    pub ring_buffer: VecDeque<SoundSample<f32>>,
    pub last_pos: usize,
    pub last_sample: SoundSample<f32>,
    pub sample_rate: usize,
}

impl ZXMixer {
    pub open spec fn spf(&self) -> int { self.sample_rate as int / 50 }
    pub open spec fn inv(&self) -> bool {
        &&& self.last_pos as int <= self.spf()
        &&& self.ring_buffer@.len() < 2 * self.spf() || self.spf() == 0 && self.ring_buffer@.len() == 0
        &&& self.sample_rate <= 0x1000_0000
    }

    #[verifier::external_body]
    pub fn gen_sample(&mut self) -> (r: SoundSample<f32>)
        ensures final(self).ring_buffer == old(self).ring_buffer, final(self).last_pos == old(self).last_pos,
            final(self).sample_rate == old(self).sample_rate,
    { unimplemented!() }

    pub uninterp spec fn count_of(&self, fraction: f64) -> int;

    #[verifier::external_body]
    pub fn sample_count_for_frame_fraction(&self, fraction: f64) -> (r: usize)
        ensures r as int == self.count_of(fraction), 0 <= r as int <= self.spf(),
    { unimplemented!() }

//@ fn rustzx-core/src/zx/sound/mixer.rs impl ZXMixer::samples_per_frame props C19
//@ ret r
//@ sig
        ensures r as int == self.spf(),
//@ end

//@ fn rustzx-core/src/zx/sound/mixer.rs impl ZXMixer::process props C19
//@ sig
        requires old(self).inv(),
        ensures final(self).inv(), final(self).sample_rate == old(self).sample_rate,
            // the queue only grows at the tail: what was queued stays, in order
            final(self).ring_buffer@.len() >= old(self).ring_buffer@.len(),
            final(self).ring_buffer@.subrange(0, old(self).ring_buffer@.len() as int) == old(self).ring_buffer@,
            // samples are produced exactly up to the sample index of the current frame position
            // (never beyond samples_per_frame), unless the host let a whole frame pile up
            (old(self).ring_buffer@.len() as int) < old(self).spf() && old(self).count_of(current_time) > old(self).last_pos as int ==>
                final(self).last_pos as int == old(self).count_of(current_time)
                && final(self).ring_buffer@.len() == old(self).ring_buffer@.len() + (old(self).count_of(current_time) - old(self).last_pos as int),
            !((old(self).ring_buffer@.len() as int) < old(self).spf() && old(self).count_of(current_time) > old(self).last_pos as int) ==>
                final(self).last_pos == old(self).last_pos && final(self).ring_buffer@ == old(self).ring_buffer@,
//@ loop 0 iter it
            invariant
                self.sample_rate == old(self).sample_rate, self.last_pos == curr_pos,
                sample_count as int == old(self).count_of(current_time) - old(self).last_pos as int,
                self.ring_buffer@.len() == old(self).ring_buffer@.len() + it.index@ as int,
                self.ring_buffer@.subrange(0, old(self).ring_buffer@.len() as int) == old(self).ring_buffer@,
//@ end

//@ fn rustzx-core/src/zx/sound/mixer.rs impl ZXMixer::new_frame props C19
//@ sig
        requires old(self).inv(),
        ensures final(self).inv(), final(self).last_pos == 0, final(self).sample_rate == old(self).sample_rate,
            // every frame delivers at least floor(rate/50) samples; exactly that many when the
            // host drained the queue at the previous frame boundary
            final(self).ring_buffer@.len() == (if (old(self).ring_buffer@.len() as int) < old(self).spf() { old(self).spf() as nat } else { old(self).ring_buffer@.len() }),
            final(self).ring_buffer@.subrange(0, old(self).ring_buffer@.len() as int) == old(self).ring_buffer@,
//@ loop 0 iter it
                invariant
                    self.sample_rate == old(self).sample_rate, self.last_pos == old(self).last_pos,
                    (old(self).ring_buffer@.len() as int) < old(self).spf(),
                    self.ring_buffer@.len() == old(self).ring_buffer@.len() + it.index@ as int,
                    self.ring_buffer@.subrange(0, old(self).ring_buffer@.len() as int) == old(self).ring_buffer@,
//@ end

//@ fn rustzx-core/src/zx/sound/mixer.rs impl ZXMixer::pop props C19 C16
//@ ret r
//@ sig
        requires old(self).inv(),
        ensures final(self).inv(), final(self).last_pos == old(self).last_pos,
            // C16: draining touches nothing but the queue
            *final(self) == (ZXMixer { ring_buffer: final(self).ring_buffer, ..*old(self) }),
            old(self).ring_buffer@.len() == 0 ==> r is None && final(self).ring_buffer@ == old(self).ring_buffer@,
            old(self).ring_buffer@.len() > 0 ==> r is Some && final(self).ring_buffer@ == old(self).ring_buffer@.subrange(1, old(self).ring_buffer@.len() as int),
//@ end
}

} // verus!
fn main() {}
