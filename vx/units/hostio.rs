//@ unit hostio
//@ props C15 C16
//@ assume host `read`/`write` implementations are arbitrary (any result, any short count <= buf.len()); only totality and the byte-accounting of the provided loops are proved
use vstd::prelude::*;

verus! {

pub enum IoError { UnexpectedEof, WriteZero, SeekBeforeStart, HostAssetImplFailed }
pub type Result<T> = core::result::Result<T, IoError>;

//@ item rustzx-core/src/host/io.rs enum SeekFrom

/// R-inherent: the provided methods of the host traits are verified over an arbitrary
/// implementation of the required method (declared here with the only contract the trait
/// documents: the count never exceeds the buffer length)
pub trait LoadableAsset {
    /// ghost: everything `read` has delivered so far, in order
    spec fn delivered(&self) -> Seq<u8>;
    fn read(&mut self, buf: &mut [u8]) -> (r: Result<usize>)
        ensures
            final(buf)@.len() == old(buf)@.len(),
            r is Ok ==> r->Ok_0 <= old(buf)@.len()
                && final(self).delivered() == old(self).delivered() + final(buf)@.subrange(0, r->Ok_0 as int)
                && final(buf)@.subrange(r->Ok_0 as int, old(buf)@.len() as int) == old(buf)@.subrange(r->Ok_0 as int, old(buf)@.len() as int),
            r is Err ==> final(self).delivered() == old(self).delivered(),
    ;

//@ fn rustzx-core/src/host/io.rs trait LoadableAsset::read_exact nopub props C15 C16
//@ ret r
//@ sig
        // total for every host `read` behaviour (short reads, zero reads, errors): terminates, no panic;
        // C16: on Ok the buffer holds exactly the next bytes of the stream, however `read` chunked them
        ensures r is Ok ==> final(self).delivered() == old(self).delivered() + final(buf)@,
//@ at 1 /while !buf\.is_empty\(\)/
        let ghost fin0 = final(buf)@;
        let ghost filled = Seq::<u8>::empty();
//@ loop 0
            invariant fin0 == filled + final(buf)@, fin0.len() == filled.len() + final(buf)@.len(),
                self.delivered() == old(self).delivered() + filled,
                filled.len() + buf@.len() == old(buf)@.len(),
            decreases buf@.len(),
//@ at 1 /let tmp = buf;/
                    proof { filled = filled + buf@.subrange(0, n as int); }
//@ end
}

pub trait DataRecorder {
    spec fn accepted(&self) -> Seq<u8>;
    fn write(&mut self, buf: &[u8]) -> (r: Result<usize>)
        ensures
            r is Ok ==> r->Ok_0 <= buf@.len()
                && final(self).accepted() == old(self).accepted() + buf@.subrange(0, r->Ok_0 as int),
            r is Err ==> final(self).accepted() == old(self).accepted(),
    ;

//@ fn rustzx-core/src/host/io.rs trait DataRecorder::write_all nopub props C15 C13
//@ ret r
//@ sig
        // all bytes are handed to the recorder, in order, whatever the chunking; never loops forever
        ensures r is Ok ==> final(self).accepted() == old(self).accepted() + buf@,
//@ at 1 /while !buf\.is_empty\(\)/
        let ghost buf0 = buf@;
//@ loop 0
            invariant self.accepted() + buf@ == old(self).accepted() + buf0,
            decreases buf@.len(),
//@ at 1 /match self\.write\(buf\)\?/
            proof {
                assert forall|n: int| 0 <= n <= buf@.len() implies
                    #[trigger] buf@.subrange(0, n) + buf@.subrange(n, buf@.len() as int) == buf@ by {
                    assert(buf@.subrange(0, n) + buf@.subrange(n, buf@.len() as int) =~= buf@);
                }
            }
//@ end
}

} // verus!
fn main() {}
