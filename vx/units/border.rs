//@ unit border
//@ props C09
//@ assume host FrameBuffer contract: set_color(x, y, c, b) requires x < width, y < height and changes exactly pixel (x, y)
//@ assume ZXSpecs values (spec `specs_ok`) proved by Kani harness K-core::machine
use vstd::prelude::*;

verus! {

//@ item rustzx-core/src/zx/machine/specs.rs struct ZXSpecs
//@ item rustzx-core/src/zx/machine/mod.rs enum ZXMachine
//@ item rustzx-core/src/zx/video/colors.rs enum ZXColor
//@ item rustzx-core/src/zx/video/colors.rs enum ZXBrightness
//@ item rustzx-core/src/zx/constants.rs const CANVAS_WIDTH
//@ item rustzx-core/src/zx/constants.rs const CANVAS_HEIGHT
//@ item rustzx-core/src/zx/constants.rs const SCREEN_WIDTH
//@ item rustzx-core/src/zx/constants.rs const SCREEN_HEIGHT
//@ item rustzx-core/src/zx/constants.rs const BORDER_COLS
//@ item rustzx-core/src/zx/constants.rs const BORDER_ROWS
//@ item rustzx-core/src/zx/constants.rs const CLOCKS_PER_COL
//@ item rustzx-core/src/zx/constants.rs const PIXELS_PER_CLOCK

pub open spec fn is48(m: ZXMachine) -> bool { m == ZXMachine::Sinclair48K }
/// statement: first picture pixel at T 14336 / 14362, 224 / 228 T per line
pub open spec fn first_pixel(m: ZXMachine) -> int { if is48(m) { 14336 } else { 14362 } }
pub open spec fn tline(m: ZXMachine) -> int { if is48(m) { 224 } else { 228 } }
/// T-state at which the beam is at the top-left pixel of the 320x240 border+picture area
/// (24 border lines above, 32 border pixels = 16 T to the left of the picture)
pub open spec fn t_org(m: ZXMachine) -> int { first_pixel(m) - 24 * tline(m) - 16 }

/// statement: index (line*320 + x) of the first visible pixel the beam reaches at or after T
/// (two pixels per T-state; during horizontal retrace that is the first pixel of the next line)
pub open spec fn beam_index(m: ZXMachine, t: int) -> int {
    if t < t_org(m) { 0 } else {
        let k = t - t_org(m);
        let l = k / tline(m);
        let o = k % tline(m);
        if o * 2 < 320 { l * 320 + o * 2 } else { (l + 1) * 320 }
    }
}

pub open spec fn specs_ok(m: ZXMachine, s: ZXSpecs) -> bool {
    &&& s.clocks_first_pixel == first_pixel(m)
    &&& s.clocks_line == tline(m)
    &&& s.clocks_ula_beam_shift == 1
}

impl ZXMachine {
    #[verifier::external_body]
    pub fn specs(self) -> (r: &'static ZXSpecs)
        ensures specs_ok(self, *r),
    { unimplemented!() }
}

pub enum FrameBufferSource { Screen, Border }

/// host frame buffer (R-ext, assumed contract): a 2-d map of colours
pub trait FrameBuffer: Sized {
    spec fn width(&self) -> int;
    spec fn height(&self) -> int;
    spec fn px(&self, x: int, y: int) -> (ZXColor, ZXBrightness);
    fn set_color(&mut self, x: usize, y: usize, color: ZXColor, brightness: ZXBrightness)
        requires (x as int) < old(self).width(), (y as int) < old(self).height(),
        ensures
            final(self).width() == old(self).width(), final(self).height() == old(self).height(),
            final(self).px(x as int, y as int) == (color, brightness),
            forall|i: int, j: int| (i != x as int || j != y as int) ==> #[trigger] final(self).px(i, j) == old(self).px(i, j),
    ;
}

/// colour of the border pixel with linear index i (line*320 + x)
pub open spec fn pix<FB: FrameBuffer>(b: FB, i: int) -> ZXColor { b.px(i % 320, i / 320).0 }

//@ item rustzx-core/src/zx/video/border.rs struct BeamInfo
//@ item rustzx-core/src/zx/video/border.rs struct ZXBorder

impl BeamInfo {
//@ fn rustzx-core/src/zx/video/border.rs impl BeamInfo::new props C09
//@ ret r
//@ sig
        ensures r.line == line, r.pixel == pixel, r.color == color,
//@ end
//@ fn rustzx-core/src/zx/video/border.rs impl BeamInfo::reset props C09
//@ sig
        ensures final(self).line == 0, final(self).pixel == 0, final(self).color == old(self).color,
//@ end
}

impl<FB: FrameBuffer> ZXBorder<FB> {
    pub open spec fn wf(&self) -> bool {
        &&& self.buffer.width() == 320 && self.buffer.height() == 240
        &&& self.last_index() <= 240 * 320
    }
    /// linear index of the first pixel not yet painted in this frame
    pub open spec fn last_index(&self) -> int { self.beam_last.line as int * 320 + self.beam_last.pixel as int }

//@ fn rustzx-core/src/zx/video/border.rs impl <FB:FrameBuffer>ZXBorder<FB>::next_border_pixel props C09
//@ ret r
//@ sig
        requires clocks <= 0x1000_0000,
        ensures
            // within 16 pixels of the beam position (statement's tolerance), in scan order
            !r.2 ==> r.0 < 240 && r.1 <= 320
                && -16 <= (r.0 as int * 320 + r.1 as int) - beam_index(self.machine, clocks as int) <= 16,
            // end of frame is reported only once the beam has left the last visible line
            r.2 ==> r.0 == 0 && r.1 == 0 && beam_index(self.machine, clocks as int) >= 240 * 320 - 16,
//@ end

//@ fn rustzx-core/src/zx/video/border.rs impl <FB:FrameBuffer>ZXBorder<FB>::fill_to props C09
//@ sig
        requires old(self).wf(), line as int * 320 + pixel as int <= 240 * 320, line <= 240, pixel <= 320,
        ensures
            final(self).wf(), final(self).beam_last == old(self).beam_last, final(self).machine == old(self).machine,
            final(self).border_changed == old(self).border_changed, final(self).beam_block == old(self).beam_block,
            // exactly the pixels between the last painted position and (line, pixel) take the last colour
            forall|i: int| 0 <= i < 240 * 320 ==> #[trigger] pix(final(self).buffer, i) ==
                (if old(self).last_index() <= i < line as int * 320 + pixel as int { old(self).beam_last.color }
                 else { pix(old(self).buffer, i) }),
//@ loop 0 iter it
            invariant
                self.wf(), self.beam_last == old(self).beam_last, self.machine == old(self).machine, last == old(self).beam_last,
                self.border_changed == old(self).border_changed, self.beam_block == old(self).beam_block,
                line as int * 320 + pixel as int <= 240 * 320,
                forall|i: int| 0 <= i < 240 * 320 ==> #[trigger] pix(self.buffer, i) ==
                    (if old(self).last_index() <= i < old(self).last_index() + it.index@ as int
                        && i < line as int * 320 + pixel as int { old(self).beam_last.color }
                     else { pix(old(self).buffer, i) }),
//@ at 1 /self\.buffer\.set_color\(/
            proof { assert(p as int == old(self).last_index() + it.index@ as int); }
            let ghost before = *self;
//@ after 1 /ZXBrightness::Normal,\s*\);/
            proof {
                assert forall|i: int| 0 <= i < 240 * 320 implies #[trigger] pix(self.buffer, i) ==
                    (if old(self).last_index() <= i < old(self).last_index() + it.index@ as int + 1
                        && i < line as int * 320 + pixel as int { old(self).beam_last.color }
                     else { pix(old(self).buffer, i) }) by {
                    if i != p as int {
                        assert(i % 320 != (p as int) % 320 || i / 320 != (p as int) / 320);
                        assert(pix(self.buffer, i) == pix(before.buffer, i));
                    }
                }
            }
//@ end

//@ fn rustzx-core/src/zx/video/border.rs impl <FB:FrameBuffer>ZXBorder<FB>::set_border props C09
//@ sig
        requires old(self).wf(), clocks <= 0x1000_0000,
        ensures
            final(self).wf(), final(self).border_changed, final(self).machine == old(self).machine,
            // the new colour applies from the beam position (to within 16 px) onwards ...
            final(self).beam_last.color == color,
            !final(self).beam_block ==>
                -16 <= final(self).last_index() - beam_index(old(self).machine, clocks as int) <= 16,
            !old(self).beam_block && final(self).beam_block ==> final(self).last_index() == 0,
            // ... every pixel the beam passed since the previous write gets the *previous* colour,
            // and no other pixel changes
            !old(self).beam_block && !final(self).beam_block ==>
                forall|i: int| 0 <= i < 240 * 320 ==> #[trigger] pix(final(self).buffer, i) ==
                    (if old(self).last_index() <= i < final(self).last_index() { old(self).beam_last.color }
                     else { pix(old(self).buffer, i) }),
            // a write after the visible frame has ended completes the frame with the previous colour
            !old(self).beam_block && final(self).beam_block ==>
                forall|i: int| 0 <= i < 240 * 320 ==> #[trigger] pix(final(self).buffer, i) ==
                    (if old(self).last_index() <= i { old(self).beam_last.color } else { pix(old(self).buffer, i) }),
            old(self).beam_block ==> final(self).beam_block
                && forall|i: int| 0 <= i < 240 * 320 ==> #[trigger] pix(final(self).buffer, i) == pix(old(self).buffer, i),
//@ end

//@ fn rustzx-core/src/zx/video/border.rs impl <FB:FrameBuffer>ZXBorder<FB>::new_frame props C09
//@ sig
        requires old(self).wf(),
        ensures
            final(self).wf(), final(self).last_index() == 0, !final(self).border_changed, !final(self).beam_block,
            final(self).beam_last.color == old(self).beam_last.color, final(self).machine == old(self).machine,
            // with no write during the frame the whole border shows the current colour
            !old(self).border_changed && !old(self).beam_block ==>
                forall|i: int| 0 <= i < 240 * 320 ==> #[trigger] pix(final(self).buffer, i) == old(self).beam_last.color,
            // otherwise the rest of the frame is completed with the last colour written
            old(self).border_changed && !old(self).beam_block ==>
                forall|i: int| 0 <= i < 240 * 320 ==> #[trigger] pix(final(self).buffer, i) ==
                    (if old(self).last_index() <= i { old(self).beam_last.color } else { pix(old(self).buffer, i) }),
            old(self).border_changed && old(self).beam_block ==>
                forall|i: int| 0 <= i < 240 * 320 ==> #[trigger] pix(final(self).buffer, i) == pix(old(self).buffer, i),
//@ end
}

} // verus!
fn main() {}
