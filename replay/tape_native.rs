
// ---- appended by /verif/kani/inject.py (scratch copy only, add-only): native replay finder C11/C12 ----
// Plays small TAP images through the real Tap with bus-wait sized clock steps (and, for C12,
// stop / play commands at pseudo-random moments), measures every pulse on the EAR level and
// compares with the standard loader waveform of the image; prints `MISMATCH ...` lines.
#[cfg(test)]
mod verif_tape_native {
    extern crate std;
    use super::*;
    use crate::host::BufferCursor;
    use std::{println, string::{String, ToString}, vec, vec::Vec};

    struct Rng(u64);
    impl Rng {
        fn next(&mut self) -> u64 {
            self.0 ^= self.0 << 13;
            self.0 ^= self.0 >> 7;
            self.0 ^= self.0 << 17;
            self.0
        }
    }

    /// nominal pulse lengths of one block (pilot, sync, data), without the trailing pause
    fn nominal(block: &[u8]) -> Vec<usize> {
        let mut v = Vec::new();
        let pilot = if block.first().copied().unwrap_or(0) == 0 { 8063 } else { 3223 };
        for _ in 0..pilot {
            v.push(2168);
        }
        v.push(667);
        v.push(735);
        for b in block {
            for bit in (0..8).rev() {
                let l = if b & (1 << bit) != 0 { 1710 } else { 855 };
                v.push(l);
                v.push(l);
            }
        }
        v
    }

    fn image(blocks: &[Vec<u8>]) -> Vec<u8> {
        let mut img = Vec::new();
        for b in blocks {
            img.push(b.len() as u8);
            img.push((b.len() >> 8) as u8);
            img.extend_from_slice(b);
        }
        img
    }

    /// plays the whole tape (`second_pass`: lets the deck run off the end, presses play again and measures
    /// that second pass instead); returns the measured pulse lengths (time between EAR edges, playing
    /// time only) or an error text
    fn play_all(img: Vec<u8>, seed: u64, with_stops: bool, second_pass: bool) -> core::result::Result<Vec<usize>, String> {
        let mut rng = Rng(seed | 1);
        let mut tape = Tap::from_asset(BufferCursor::new(img)).map_err(|_| "from_asset failed".to_string())?;
        tape.play();
        // second-pass runs pause exactly once, in the pilot or in the data of the first block, so that the
        // resume point the deck must forget at the end of the tape is a mid-waveform one
        let single = if second_pass && with_stops {
            Some(if rng.next() % 2 == 0 { rng.next() % 2_000_000 } else { 2_060_000 + rng.next() % 2_000 })
        } else {
            None
        };
        let first = one_pass(&mut tape, &mut rng, with_stops && !second_pass, single)?;
        if !second_pass {
            return Ok(first);
        }
        // the deck has stopped by itself at the end of the tape: the next play starts again from block 1
        tape.play();
        one_pass(&mut tape, &mut rng, false, None)
    }

    fn one_pass(tape: &mut Tap<BufferCursor<Vec<u8>>>, rng: &mut Rng, with_stops: bool, single: Option<u64>) -> core::result::Result<Vec<usize>, String> {
        let mut nstep = 0u64;
        let mut pulses = Vec::new();
        let mut level = tape.current_bit();
        let mut since = 0usize;
        let mut total = 0usize;
        let mut idle = 0usize;
        while total < 400_000_000 {
            // (only while the deck is running: pressing play after it stopped itself would start the next pass)
            nstep += 1;
            if (single == Some(nstep) || (with_stops && rng.next() % 50_000 == 0)) && !tape.can_fast_load() {
                // stop for a while (time passes, nothing may move), maybe stop / play twice
                tape.stop();
                if rng.next() % 2 == 0 {
                    tape.stop();
                }
                let l0 = tape.current_bit();
                for _ in 0..(rng.next() % 5000) {
                    tape.process_clocks(16).map_err(|_| "process_clocks failed while stopped".to_string())?;
                }
                if tape.current_bit() != l0 {
                    return Err("EAR level changed while the deck was stopped".to_string());
                }
                tape.play();
                if rng.next() % 2 == 0 {
                    tape.play();
                }
            }
            let step = 1 + (rng.next() % 16) as usize;
            tape.process_clocks(step).map_err(|_| "process_clocks failed".to_string())?;
            total += step;
            since += step;
            if tape.current_bit() != level {
                level = tape.current_bit();
                pulses.push(since);
                since = 0;
                idle = 0;
            } else {
                idle += step;
                // more than two pauses without an edge: the tape has ended
                if idle > 8_000_000 {
                    break;
                }
            }
            if tape.can_fast_load() && pulses.len() > 10 {
                // the deck stopped by itself at the end of the tape
                break;
            }
        }
        Ok(pulses)
    }

    fn check(name: &str, blocks: &[Vec<u8>], seed: u64, with_stops: bool, second_pass: bool) -> usize {
        let mut bad = 0;
        let name = &std::format!("{}{}", name, if second_pass { " (second pass after running off the end)" } else { "" })[..];
        let got = match play_all(image(blocks), seed, with_stops, second_pass) {
            Ok(p) => p,
            Err(e) => {
                println!("MISMATCH tape={} seed={} stops={}: {}", name, seed, with_stops, e);
                return 1;
            }
        };
        // expected: per block its pulses, then one long pause pulse (about a second). The time up to
        // the first edge is not a pulse; the first pilot pulse of a block may merge with the silence
        // before it (one pilot pulse fewer).
        let mut gi = 1usize;
        'blocks: for (bi, b) in blocks.iter().enumerate() {
            let nom = nominal(b);
            let mut fit = None;
            for skip in 0..2usize {
                let mut ok = true;
                let mut why = String::new();
                for (k, n) in nom[skip..].iter().enumerate() {
                    match got.get(gi + k) {
                        None => {
                            ok = false;
                            why = std::format!("ends after {} of {} pulses", k + skip, nom.len());
                            break;
                        }
                        Some(&g) => {
                            if g < *n || g > *n + 32 {
                                ok = false;
                                why = std::format!("pulse {} lasts {} T, nominal {} (+0..32)", k + skip, g, n);
                                break;
                            }
                        }
                    }
                }
                if ok {
                    fit = Some(nom.len() - skip);
                    break;
                }
                if skip == 1 {
                    println!("MISMATCH tape={} seed={} stops={}: block {} {}", name, seed, with_stops, bi, why);
                }
            }
            match fit {
                None => {
                    bad += 1;
                    break 'blocks;
                }
                Some(n) => gi += n,
            }
            // pause: one pulse of about a second (at least half a second)
            if gi < got.len() {
                if got[gi] < 1_750_000 {
                    println!("MISMATCH tape={} seed={} stops={}: pause after block {} lasts only {} T", name, seed, with_stops, bi, got[gi]);
                    bad += 1;
                    break 'blocks;
                }
                gi += 1;
            }
        }
        bad
    }

    #[test]
    fn waveform() {
        let seed: u64 = std::env::var("VERIF_SEED").ok().and_then(|s| s.parse().ok()).unwrap_or(1);
        let tapes: Vec<(&str, Vec<Vec<u8>>)> = vec![
            ("header+data", vec![vec![0x00, 1, 2, 3, 0xFF, 0x55], vec![0xFF, 0xAA, 0x01, 0x80, 0x00]]),
            ("one-byte blocks", vec![vec![0x00], vec![0xFF], vec![0x7F]]),
            ("long block (refill window)", vec![(0..300u32).map(|i| (i * 7 + 3) as u8).collect::<Vec<u8>>()]),
            ("block lengths 128/256/384", vec![
                (0..128u32).map(|i| (i * 5 + 1) as u8).collect::<Vec<u8>>(),
                (0..256u32).map(|i| (i * 3 + 2) as u8).collect::<Vec<u8>>(),
                (0..384u32).map(|i| (i * 11 + 7) as u8).collect::<Vec<u8>>(),
                vec![0xFF, 0x12],
            ]),
        ];
        let mut bad = 0;
        for (name, blocks) in &tapes {
            bad += check(name, blocks, seed, false, false);
            bad += check(name, blocks, seed.wrapping_mul(31).wrapping_add(7), true, false);
            // C12: after the deck ran off the end (with or without pauses on the way) play reproduces the whole tape
            bad += check(name, blocks, seed.wrapping_mul(17).wrapping_add(3), false, true);
            bad += check(name, blocks, seed.wrapping_mul(13).wrapping_add(5), true, true);
        }
        assert!(bad == 0, "{} tape run(s) deviate from the standard waveform", bad);
    }

    /// C10 (block reader, used by the fast loader): every block of every image, abandoned after every
    /// possible number of consumed bytes (0..=len), must deliver exactly its payload bytes, and the next
    /// next_block() must land exactly on the following block (then on the end of the tape)
    #[test]
    fn reader_histories() {
        let tapes: Vec<Vec<Vec<u8>>> = vec![
            vec![vec![0x00, 1, 2, 3, 0xFF, 0x55], vec![0xFF, 0xAA, 0x01, 0x80, 0x00]],
            vec![
                (0..128u32).map(|i| (i * 5 + 1) as u8).collect::<Vec<u8>>(),
                (0..300u32).map(|i| (i * 3 + 2) as u8).collect::<Vec<u8>>(),
                (0..384u32).map(|i| (i * 11 + 7) as u8).collect::<Vec<u8>>(),
                (0..129u32).map(|i| (i * 13 + 5) as u8).collect::<Vec<u8>>(),
                vec![0xFF, 0x12],
            ],
        ];
        let mut bad = 0;
        for (ti, blocks) in tapes.iter().enumerate() {
            for bi in 0..blocks.len() {
                'k: for k in 0..=blocks[bi].len() {
                    let mut tape = Tap::from_asset(BufferCursor::new(image(blocks))).unwrap();
                    // consume the blocks before `bi` completely, `bi` up to k bytes, the rest completely
                    for (j, b) in blocks.iter().enumerate() {
                        match tape.next_block() {
                            Ok(true) => {}
                            _ => {
                                println!("MISMATCH reader tape={} block={} abandon_after={}: next_block() does not find block {}", ti, bi, k, j);
                                bad += 1;
                                break 'k;
                            }
                        }
                        let take = if j == bi { k } else { b.len() };
                        for n in 0..take {
                            match tape.next_block_byte() {
                                Ok(Some(v)) if v == b[n] => {}
                                other => {
                                    println!("MISMATCH reader tape={} block={} abandon_after={}: byte {} of block {} is {:?}, image has {}",
                                        ti, bi, k, n, j, other.ok(), b[n]);
                                    bad += 1;
                                    break 'k;
                                }
                            }
                        }
                        if take == b.len() && j != bi {
                            if !matches!(tape.next_block_byte(), Ok(None)) {
                                println!("MISMATCH reader tape={} block={} abandon_after={}: block {} delivers more than its {} bytes", ti, bi, k, j, b.len());
                                bad += 1;
                                break 'k;
                            }
                        }
                    }
                    if !matches!(tape.next_block(), Ok(false)) {
                        println!("MISMATCH reader tape={} block={} abandon_after={}: a block is found behind the last one", ti, bi, k);
                        bad += 1;
                    }
                }
            }
        }
        assert!(bad == 0, "{} reader histories deviate from the image", bad);
    }
}
