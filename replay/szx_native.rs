// Native bounded stand-in for C15 (injected into a scratch copy as rustzx-test/tests/verif_szx.rs).
// SZX files of one block: every block id the loader looks into, in several letter cases, with every
// declared size below the minimum the handler reads (content zero): load must return Err, never panic.
// Prints `MISMATCH ...` for every file that panics or loads.
use rustzx_core::{
    host::{
        BufferCursor, DebugInterface, FrameBuffer, FrameBufferSource, Host, HostContext, Stopwatch,
        StubIoExtender, Tape,
    },
    zx::{
        machine::ZXMachine,
        sound::ay::ZXAYMode,
        video::colors::{ZXBrightness, ZXColor},
    },
    EmulationMode, EmulationStopReason, Emulator, RustzxSettings,
};
use rustzx_utils::io::GzipAsset;
use std::{
    collections::HashSet,
    fs::File,
    sync::atomic::{AtomicU64, Ordering},
    time::Duration,
};

/// what the host stopwatch reports (milliseconds); set by the driving
static CLOCK_MS: AtomicU64 = AtomicU64::new(0);

struct Pixels(Vec<u8>, usize);
impl FrameBuffer for Pixels {
    type Context = ();
    fn new(width: usize, height: usize, _: FrameBufferSource, _: ()) -> Self {
        Self(vec![0; width * height], width)
    }
    fn set_color(&mut self, x: usize, y: usize, color: ZXColor, brightness: ZXBrightness) {
        self.0[y * self.1 + x] = color as u8 + brightness as u8 * 8;
    }
}
struct Context;
impl HostContext<TestHost> for Context {
    fn frame_buffer_context(&self) {}
}
struct Clock;
impl Stopwatch for Clock {
    fn new() -> Self {
        Self
    }
    fn measure(&self) -> Duration {
        Duration::from_millis(CLOCK_MS.load(Ordering::Relaxed))
    }
}
struct Breakpoints(HashSet<u16>);
impl DebugInterface for Breakpoints {
    fn check_pc_breakpoint(&mut self, addr: u16) -> bool {
        self.0.contains(&addr)
    }
}
struct TestHost;
impl Host for TestHost {
    type Context = Context;
    type DebugInterface = Breakpoints;
    type EmulationStopwatch = Clock;
    type FrameBuffer = Pixels;
    type IoExtender = StubIoExtender;
    type TapeAsset = BufferCursor<Vec<u8>>;
}

fn settings(machine: ZXMachine, sound: bool) -> RustzxSettings {
    RustzxSettings {
        machine,
        emulation_mode: EmulationMode::FrameCount(1),
        tape_fastload_enabled: true,
        kempston_enabled: false,
        mouse_enabled: false,
        ay_mode: ZXAYMode::ABC,
        ay_enabled: sound,
        beeper_enabled: sound,
        sound_enabled: sound,
        sound_volume: 100,
        sound_sample_rate: 44100,
        load_default_rom: true,
        autoload_enabled: true,
    }
}

fn szx_file(machine_id: u8, id: [u8; 4], size: usize) -> Vec<u8> {
    let mut f = vec![b'Z', b'X', b'S', b'T', 1, 4, machine_id, 0];
    f.extend_from_slice(&id);
    f.extend_from_slice(&(size as u32).to_le_bytes());
    f.extend(std::iter::repeat(0u8).take(size));
    f
}

#[test]
fn szx_short_blocks() {
    use rustzx_core::host::Snapshot;
    let ids: [([u8; 4], usize); 7] = [(*b"CRTR", 37), (*b"Z80R", 37), (*b"SPCR", 8), (*b"AY\0\0", 18), (*b"KEYB", 5), (*b"AMXM", 1), (*b"RAMP", 3)];
    let mut bad = 0;
    std::panic::set_hook(Box::new(|_| {}));
    for (machine, mid) in [(ZXMachine::Sinclair48K, 1u8), (ZXMachine::Sinclair128K, 2u8)] {
        for (id, min) in ids {
            for case in 0..4 {
                let mut v = id;
                match case {
                    1 => v.make_ascii_lowercase(),
                    2 => v[0] = v[0].to_ascii_lowercase(),
                    3 => v[3] = v[3].to_ascii_lowercase(),
                    _ => {}
                }
                for size in 0..min {
                    let file = szx_file(mid, v, size);
                    let r = std::panic::catch_unwind(|| {
                        let mut e = Emulator::<TestHost>::new(settings(machine, false), Context).unwrap();
                        e.load_snapshot(Snapshot::Szx(BufferCursor::new(file.clone()))).is_err()
                    });
                    match r {
                        Ok(true) => {}
                        Ok(false) => {
                            println!("MISMATCH szx machine={:?} id={:?} size={}: a block shorter than what its handler reads was accepted", mid, v, size);
                            bad += 1;
                        }
                        Err(_) => {
                            println!("MISMATCH szx machine={:?} id={:?} size={}: load PANICKED (file bytes {:?})", mid, v, size, file);
                            bad += 1;
                        }
                    }
                }
            }
        }
    }
    assert!(bad == 0, "{} malformed SZX files panic or load", bad);
}
