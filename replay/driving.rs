// Native replay finder for C16 (injected into a scratch copy as rustzx-test/tests/verif_driving.rs).
// Runs the same scenario (48K / 128K tape autoload with fast loading) for the same number of
// frames under different host drivings and prints `MISMATCH ...` for the first driving whose
// final memory / screen / border differs from the reference driving (one frame per call).
use rustzx_core::{
    host::{
        BufferCursor, DebugInterface, FrameBuffer, FrameBufferSource, Host, HostContext, Stopwatch,
        StubIoExtender, Tape,
    },
    zx::{
        machine::ZXMachine,
        sound::ay::ZXAYMode,
        video::colors::{ZXBrightness, ZXColor},
    },
    EmulationMode, EmulationStopReason, Emulator, RustzxSettings,
};
use rustzx_utils::io::GzipAsset;
use std::{
    collections::HashSet,
    fs::File,
    sync::atomic::{AtomicU64, Ordering},
    time::Duration,
};

/// what the host stopwatch reports (milliseconds); set by the driving
static CLOCK_MS: AtomicU64 = AtomicU64::new(0);

struct Pixels(Vec<u8>, usize);
impl FrameBuffer for Pixels {
    type Context = ();
    fn new(width: usize, height: usize, _: FrameBufferSource, _: ()) -> Self {
        Self(vec![0; width * height], width)
    }
    fn set_color(&mut self, x: usize, y: usize, color: ZXColor, brightness: ZXBrightness) {
        self.0[y * self.1 + x] = color as u8 + brightness as u8 * 8;
    }
}
struct Context;
impl HostContext<TestHost> for Context {
    fn frame_buffer_context(&self) {}
}
struct Clock;
impl Stopwatch for Clock {
    fn new() -> Self {
        Self
    }
    fn measure(&self) -> Duration {
        Duration::from_millis(CLOCK_MS.load(Ordering::Relaxed))
    }
}
struct Breakpoints(HashSet<u16>);
impl DebugInterface for Breakpoints {
    fn check_pc_breakpoint(&mut self, addr: u16) -> bool {
        self.0.contains(&addr)
    }
}
struct TestHost;
impl Host for TestHost {
    type Context = Context;
    type DebugInterface = Breakpoints;
    type EmulationStopwatch = Clock;
    type FrameBuffer = Pixels;
    type IoExtender = StubIoExtender;
    type TapeAsset = BufferCursor<Vec<u8>>;
}

#[derive(PartialEq, Eq)]
struct MachineState {
    memory: Vec<u8>,
    screen: Vec<u8>,
    border: Vec<u8>,
    border_color: u8,
}

fn settings(machine: ZXMachine, sound: bool) -> RustzxSettings {
    RustzxSettings {
        machine,
        emulation_mode: EmulationMode::FrameCount(1),
        tape_fastload_enabled: true,
        kempston_enabled: false,
        mouse_enabled: false,
        ay_mode: ZXAYMode::ABC,
        ay_enabled: sound,
        beeper_enabled: sound,
        sound_enabled: sound,
        sound_volume: 100,
        sound_sample_rate: 44100,
        load_default_rom: true,
        autoload_enabled: true,
    }
}

#[derive(Clone, Debug)]
enum Driving {
    /// FrameCount(n) per call
    Frames(usize),
    /// maximum speed, the stopwatch expires after every frame
    MaxSpeed,
    /// one frame per call, stopped and resumed at these addresses
    Breakpoints(Vec<u16>),
    /// one frame per call with sound generation on, samples drained (or not) at frame boundaries
    Sound(bool),
}

fn run(machine: ZXMachine, frames: usize, d: &Driving) -> MachineState {
    let tape = GzipAsset::new(File::open("test_data/simple_tape.tap.gz").unwrap()).unwrap().into_vec();
    let sound = matches!(d, Driving::Sound(_));
    let mut e = Emulator::<TestHost>::new(settings(machine, sound), Context).unwrap();
    e.load_tape(Tape::Tap(BufferCursor::new(tape))).unwrap();
    CLOCK_MS.store(0, Ordering::Relaxed);
    let mut done = 0;
    match d {
        Driving::Frames(n) => {
            e.set_speed(EmulationMode::FrameCount(*n));
            while done < frames {
                let info = e.emulate_frames(Duration::from_millis(100)).unwrap();
                assert!(info.stop_reason == EmulationStopReason::Completed);
                done += n;
            }
        }
        Driving::MaxSpeed => {
            e.set_speed(EmulationMode::Max);
            CLOCK_MS.store(1000, Ordering::Relaxed);
            while done < frames {
                let info = e.emulate_frames(Duration::from_millis(100)).unwrap();
                assert!(info.stop_reason == EmulationStopReason::Timeout);
                done += 1;
            }
        }
        Driving::Breakpoints(b) => {
            e.set_debug_interface(Breakpoints(b.iter().copied().collect()));
            while done < frames {
                let info = e.emulate_frames(Duration::from_millis(100)).unwrap();
                if info.stop_reason == EmulationStopReason::Completed {
                    done += 1;
                }
            }
        }
        Driving::Sound(drain) => {
            while done < frames {
                e.emulate_frames(Duration::from_millis(100)).unwrap();
                if *drain {
                    while e.next_audio_sample().is_some() {}
                }
                done += 1;
            }
        }
    }
    MachineState {
        memory: (0..=u16::MAX).map(|a| e.peek(a)).collect(),
        screen: e.screen_buffer().0.clone(),
        border: e.border_buffer().0.clone(),
        border_color: e.border_color() as u8,
    }
}

#[test]
fn drivings_agree() {
    let frames = 12;
    let mut bad = 0;
    for machine in [ZXMachine::Sinclair48K, ZXMachine::Sinclair128K] {
        let reference = run(machine, frames, &Driving::Frames(1));
        let drivings = vec![
            Driving::Frames(1),
            Driving::Frames(2),
            Driving::Frames(3),
            Driving::Frames(12),
            Driving::MaxSpeed,
            Driving::Breakpoints(vec![0x0038]),
            Driving::Breakpoints(vec![0x056B]),
            Driving::Breakpoints(vec![0x0038, 0x02BF, 0x056B, 0x0556]),
            Driving::Sound(true),
            Driving::Sound(false),
        ];
        for d in drivings {
            let s = run(machine, frames, &d);
            if s != reference {
                let what = if s.memory != reference.memory {
                    let a = (0..65536).find(|&i| s.memory[i] != reference.memory[i]).unwrap();
                    format!("memory first differs at 0x{:04X} ({:02X} vs {:02X})", a, s.memory[a], reference.memory[a])
                } else if s.screen != reference.screen {
                    "screen frame buffer differs".to_string()
                } else if s.border != reference.border {
                    "border frame buffer differs".to_string()
                } else {
                    "border colour differs".to_string()
                };
                println!("MISMATCH machine={:?} frames={} driving={:?} vs one-frame-per-call: {}", machine, frames, d, what);
                bad += 1;
            }
        }
    }
    assert!(bad == 0, "{} driving(s) disagree", bad);
}
