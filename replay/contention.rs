// Native replay finder for C04: compares ZXMachine::contention_clocks with the statement's delay
// function for every in-frame T-state of both machines and prints the first disagreement.
use rustzx_core::zx::machine::ZXMachine;

fn spec(m: ZXMachine, t: usize) -> usize {
    let (t0, line) = match m {
        ZXMachine::Sinclair48K => (14335usize, 224usize),
        ZXMachine::Sinclair128K => (14361, 228),
    };
    if t < t0 || t >= t0 + 192 * line {
        return 0;
    }
    let o = (t - t0) % line;
    if o >= 128 {
        return 0;
    }
    [6, 5, 4, 3, 2, 1, 0, 0][o % 8]
}

fn main() {
    for (m, frame) in [(ZXMachine::Sinclair48K, 69888usize), (ZXMachine::Sinclair128K, 70908)] {
        for t in 0..frame {
            let got = m.contention_clocks(t);
            let exp = spec(m, t);
            if got != exp {
                println!("MISMATCH machine={:?} T={} expected_delay={} actual_delay={}", m, t, exp, got);
                std::process::exit(1);
            }
        }
    }
    println!("no mismatch over all in-frame T-states of both machines");
}
