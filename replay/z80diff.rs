// Native differential tester: real `rustzx_z80::Z80::emulate` vs the reference `ref_step`.
//
//   verif_z80diff random <seed> <count>
//   verif_z80diff exhaustive-opcodes <seed> <per-opcode-count>
//
// Both sides run against buses that answer every data-returning call (memory read, port read,
// interrupt acknowledge) from the same pseudo-random answer stream, indexed by the ordinal of the
// call, and log every bus call as a primitive event.  After each step the two event logs and the
// two architectural states are compared.

use rustzx_z80::verif::iface::*;
use rustzx_z80::verif::reference::ref_step;
use rustzx_z80::{VRegs, Z80Bus, Z80};
use std::collections::BTreeMap;

// ---------------------------------------------------------------------------------------------
// events
// ---------------------------------------------------------------------------------------------
#[derive(Clone, Copy, PartialEq, Eq, Debug)]
enum K {
    WaitMreq,
    WaitNoMreq,
    WaitInternal,
    ReadMem,
    WriteMem,
    ReadIo,
    WriteIo,
    IntAck,
    Reti,
    Halt,
    PcCallback,
}
#[derive(Clone, Copy, PartialEq, Eq, Debug)]
struct Ev {
    k: K,
    addr: u16,
    data: u8,
    clk: u32,
}
fn fmt_ev(e: &Ev) -> String {
    format!("{:?}(addr={:04X} data={:02X} clk={})", e.k, e.addr, e.data, e.clk)
}

const NANS: usize = 32;

struct Core {
    ans: [u8; NANS],
    pos: usize,
    ev: Vec<Ev>,
    int: bool,
    nmi: bool,
}
impl Core {
    fn new() -> Self {
        Core { ans: [0; NANS], pos: 0, ev: Vec::with_capacity(64), int: false, nmi: false }
    }
    fn reset(&mut self, ans: &[u8; NANS], int: bool, nmi: bool) {
        self.ans = *ans;
        self.pos = 0;
        self.ev.clear();
        self.int = int;
        self.nmi = nmi;
    }
    fn answer(&mut self) -> u8 {
        let v = self.ans[self.pos % NANS];
        self.pos += 1;
        v
    }
    fn log(&mut self, k: K, addr: u16, data: u8, clk: u32) {
        self.ev.push(Ev { k, addr, data, clk });
    }
}

/// bus given to the real CPU
struct RealBus(Core);
impl Z80Bus for RealBus {
    fn read_internal(&mut self, addr: u16) -> u8 {
        let v = self.0.answer();
        self.0.log(K::ReadMem, addr, v, 0);
        v
    }
    fn write_internal(&mut self, addr: u16, data: u8) {
        self.0.log(K::WriteMem, addr, data, 0);
    }
    fn wait_mreq(&mut self, addr: u16, clk: usize) {
        self.0.log(K::WaitMreq, addr, 0, clk as u32);
    }
    fn wait_no_mreq(&mut self, addr: u16, clk: usize) {
        self.0.log(K::WaitNoMreq, addr, 0, clk as u32);
    }
    fn wait_internal(&mut self, clk: usize) {
        self.0.log(K::WaitInternal, 0, 0, clk as u32);
    }
    fn read_io(&mut self, port: u16) -> u8 {
        let v = self.0.answer();
        self.0.log(K::ReadIo, port, v, 0);
        v
    }
    fn write_io(&mut self, port: u16, data: u8) {
        self.0.log(K::WriteIo, port, data, 0);
    }
    fn read_interrupt(&mut self) -> u8 {
        let v = self.0.answer();
        self.0.log(K::IntAck, 0, v, 0);
        v
    }
    fn reti(&mut self) {
        self.0.log(K::Reti, 0, 0, 0);
    }
    fn halt(&mut self, halted: bool) {
        self.0.log(K::Halt, 0, halted as u8, 0);
    }
    fn int_active(&self) -> bool {
        self.0.int
    }
    fn nmi_active(&self) -> bool {
        self.0.nmi
    }
    fn pc_callback(&mut self, addr: u16) {
        self.0.log(K::PcCallback, addr, 0, 0);
    }
}

/// bus given to the reference; expands RefBus calls into the same primitive vocabulary
struct ModelBus(Core);
impl RefBus for ModelBus {
    fn m1(&mut self, addr: u16) -> u8 {
        self.0.log(K::WaitMreq, addr, 0, 4);
        let v = self.0.answer();
        self.0.log(K::ReadMem, addr, v, 0);
        v
    }
    fn mem_read(&mut self, addr: u16) -> u8 {
        self.0.log(K::WaitMreq, addr, 0, 3);
        let v = self.0.answer();
        self.0.log(K::ReadMem, addr, v, 0);
        v
    }
    fn mem_write(&mut self, addr: u16, value: u8) {
        self.0.log(K::WaitMreq, addr, 0, 3);
        self.0.log(K::WriteMem, addr, value, 0);
    }
    fn internal(&mut self, addr: u16, n: u8) {
        for _ in 0..n {
            self.0.log(K::WaitNoMreq, addr, 0, 1);
        }
    }
    fn idle(&mut self, n: u8) {
        self.0.log(K::WaitInternal, 0, 0, n as u32);
    }
    fn port_in(&mut self, port: u16) -> u8 {
        let v = self.0.answer();
        self.0.log(K::ReadIo, port, v, 0);
        v
    }
    fn port_out(&mut self, port: u16, value: u8) {
        self.0.log(K::WriteIo, port, value, 0);
    }
    fn int_ack(&mut self) -> u8 {
        let v = self.0.answer();
        self.0.log(K::IntAck, 0, v, 0);
        v
    }
    fn int_line(&mut self) -> bool {
        self.0.int
    }
    fn nmi_line(&mut self) -> bool {
        self.0.nmi
    }
    fn halt_line(&mut self, level: bool) {
        self.0.log(K::Halt, 0, level as u8, 0);
    }
    fn reti(&mut self) {
        self.0.log(K::Reti, 0, 0, 0);
    }
    fn step_end(&mut self, pc: u16) {
        self.0.log(K::PcCallback, pc, 0, 0);
    }
}

// ---------------------------------------------------------------------------------------------
// PRNG (splitmix64)
// ---------------------------------------------------------------------------------------------
struct Rng(u64);
impl Rng {
    fn next(&mut self) -> u64 {
        self.0 = self.0.wrapping_add(0x9E37_79B9_7F4A_7C15);
        let mut z = self.0;
        z = (z ^ (z >> 30)).wrapping_mul(0xBF58_476D_1CE4_E5B9);
        z = (z ^ (z >> 27)).wrapping_mul(0x94D0_49BB_1331_11EB);
        z ^ (z >> 31)
    }
    fn below(&mut self, n: u32) -> u32 {
        ((self.next() >> 32) as u32) % n
    }
    fn chance(&mut self, percent: u32) -> bool {
        self.below(100) < percent
    }
    /// byte biased towards boundary values
    fn byte(&mut self) -> u8 {
        const EDGE: [u8; 12] = [0x00, 0x01, 0x02, 0xFF, 0xFE, 0x7F, 0x80, 0x0F, 0x10, 0x99, 0x9A, 0xF0];
        if self.below(4) == 0 {
            EDGE[self.below(12) as usize]
        } else {
            self.next() as u8
        }
    }
    fn word(&mut self) -> u16 {
        ((self.byte() as u16) << 8) | self.byte() as u16
    }
    fn flag(&mut self) -> bool {
        self.next() & 1 != 0
    }
}

// ---------------------------------------------------------------------------------------------
// state transfer
// ---------------------------------------------------------------------------------------------
fn load_real(cpu: &mut Z80, s: &RefState, dead_last_q: u8) {
    cpu.regs.verif_set(&VRegs {
        pc: s.pc, sp: s.sp, mem_ptr: s.memptr, q: s.q, last_q: dead_last_q,
        ixh: s.ixh, ixl: s.ixl, iyh: s.iyh, iyl: s.iyl, r: s.r, i: s.i,
        iff1: s.iff1, iff2: s.iff2,
        a: s.a, f: s.f, b: s.b, c: s.c, d: s.d, e: s.e, h: s.h, l: s.l,
        a_alt: s.a_alt, f_alt: s.f_alt, b_alt: s.b_alt, c_alt: s.c_alt,
        d_alt: s.d_alt, e_alt: s.e_alt, h_alt: s.h_alt, l_alt: s.l_alt,
    });
    cpu.halted = s.halted;
    cpu.skip_interrupt = s.int_inhibit;
    cpu.set_im(s.im);
    cpu.verif_set_active_prefix(s.pending_prefix);
}
fn read_real(cpu: &Z80) -> RefState {
    let v = cpu.regs.verif_get();
    RefState {
        a: v.a, f: v.f, b: v.b, c: v.c, d: v.d, e: v.e, h: v.h, l: v.l,
        a_alt: v.a_alt, f_alt: v.f_alt, b_alt: v.b_alt, c_alt: v.c_alt,
        d_alt: v.d_alt, e_alt: v.e_alt, h_alt: v.h_alt, l_alt: v.l_alt,
        ixh: v.ixh, ixl: v.ixl, iyh: v.iyh, iyl: v.iyl,
        i: v.i, r: v.r, pc: v.pc, sp: v.sp, memptr: v.mem_ptr, q: v.q,
        iff1: v.iff1, iff2: v.iff2,
        im: cpu.verif_im(),
        halted: cpu.halted,
        pending_prefix: cpu.verif_active_prefix(),
        int_inhibit: cpu.skip_interrupt,
    }
}

/// (field name, expected(ref), actual(real)) for every differing field
fn diff_states(r: &RefState, a: &RefState) -> Vec<(&'static str, String, String)> {
    let mut out = Vec::new();
    macro_rules! cmp8 {
        ($($f:ident),*) => { $( if r.$f != a.$f {
            out.push((stringify!($f), format!("{:02X}", r.$f), format!("{:02X}", a.$f)));
        } )* };
    }
    macro_rules! cmp16 {
        ($($f:ident),*) => { $( if r.$f != a.$f {
            out.push((stringify!($f), format!("{:04X}", r.$f), format!("{:04X}", a.$f)));
        } )* };
    }
    macro_rules! cmpb {
        ($($f:ident),*) => { $( if r.$f != a.$f {
            out.push((stringify!($f), format!("{}", r.$f), format!("{}", a.$f)));
        } )* };
    }
    cmp8!(a, f, b, c, d, e, h, l, a_alt, f_alt, b_alt, c_alt, d_alt, e_alt, h_alt, l_alt);
    cmp8!(ixh, ixl, iyh, iyl, i, r, q, im, pending_prefix);
    cmp16!(pc, sp, memptr);
    cmpb!(iff1, iff2, halted, int_inhibit);
    out
}

// ---------------------------------------------------------------------------------------------
// case generation
// ---------------------------------------------------------------------------------------------
const CLASS_NAMES: [&str; 7] = ["--", "CB", "ED", "DD", "FD", "DDCB", "FDCB"];

fn gen_state(rng: &mut Rng) -> RefState {
    let mut s = RefState {
        a: rng.byte(), f: rng.next() as u8, b: rng.byte(), c: rng.byte(), d: rng.byte(),
        e: rng.byte(), h: rng.byte(), l: rng.byte(),
        a_alt: rng.byte(), f_alt: rng.byte(), b_alt: rng.byte(), c_alt: rng.byte(),
        d_alt: rng.byte(), e_alt: rng.byte(), h_alt: rng.byte(), l_alt: rng.byte(),
        ixh: rng.byte(), ixl: rng.byte(), iyh: rng.byte(), iyl: rng.byte(),
        i: rng.byte(), r: rng.byte(),
        pc: rng.word(), sp: rng.word(), memptr: rng.word(),
        q: 0,
        iff1: rng.flag(), iff2: rng.flag(),
        im: rng.below(3) as u8,
        halted: false,
        pending_prefix: 0,
        int_inhibit: rng.chance(10),
    };
    // Q is either 0 or a copy of F (reachable-state invariant of the latch); exercise a
    // sprinkling of arbitrary values too since the SCF/CCF formula is defined for any Q
    s.q = match rng.below(8) {
        0..=3 => s.f,
        4..=6 => 0,
        _ => rng.next() as u8,
    };
    // small loop counters so that both the repeating and the terminating case of block
    // instructions and DJNZ are frequent
    if rng.chance(30) {
        s.b = if rng.flag() { 0 } else { rng.below(3) as u8 };
        if rng.chance(60) {
            s.c = rng.below(3) as u8;
        }
    }
    s
}

struct Plan {
    int: bool,
    nmi: bool,
    ans: [u8; NANS],
    class: usize,
    opcode: u8,
    irq: &'static str,
}

/// Decide the inputs of one step from state `s`.  `forced` pins (class, opcode).
fn plan_step(rng: &mut Rng, s: &RefState, forced: Option<(usize, u8)>, p_nmi: u32, p_int: u32) -> Plan {
    let nmi = rng.chance(p_nmi);
    let int = rng.chance(p_int);
    let accepted = !s.int_inhibit && (nmi || (int && s.iff1));
    let irq = if !accepted {
        "none"
    } else if nmi {
        "nmi"
    } else if s.im == 2 {
        "im2"
    } else {
        "im01"
    };
    // answers consumed before the first opcode fetch (IM2: acknowledge byte + vector word)
    let pre = if irq == "im2" { 3 } else { 0 };
    let mut ans = [0u8; NANS];
    let same_as_a = rng.chance(5);
    for a in ans.iter_mut() {
        *a = if same_as_a { s.a } else { rng.byte() };
    }
    let (mut class, mut opcode) = match forced {
        Some(f) => f,
        None => (rng.below(7) as usize, rng.next() as u8),
    };
    if s.halted && !accepted {
        class = 0;
        opcode = 0x76;
    } else if s.pending_prefix != 0 {
        let ok = match s.pending_prefix {
            0xDD => class == 3 || class == 5,
            0xFD => class == 4 || class == 6,
            _ => class == 2,
        };
        if !ok {
            class = match s.pending_prefix {
                0xDD => if rng.flag() { 3 } else { 5 },
                0xFD => if rng.flag() { 4 } else { 6 },
                _ => 2,
            };
        }
    }
    let d = rng.byte();
    let bytes: Vec<u8> = match class {
        0 => vec![opcode],
        1 => vec![0xCB, opcode],
        2 => vec![0xED, opcode],
        3 => vec![0xDD, opcode],
        4 => vec![0xFD, opcode],
        5 => vec![0xDD, 0xCB, d, opcode],
        _ => vec![0xFD, 0xCB, d, opcode],
    };
    let skip = if s.pending_prefix != 0 && !(s.halted && !accepted) { 1 } else { 0 };
    for (i, b) in bytes.iter().skip(skip).enumerate() {
        ans[pre + i] = *b;
    }
    Plan { int, nmi, ans, class, opcode, irq }
}

// ---------------------------------------------------------------------------------------------
// reporting
// ---------------------------------------------------------------------------------------------
struct Report {
    groups: BTreeMap<(String, u8, String), u64>,
    total_mismatch_cases: u64,
    steps: u64,
    cov: Vec<BTreeMap<u32, u64>>,
    seed: u64,
}
const DETAIL_PER_GROUP: u64 = 2;
const LINES_PER_GROUP: u64 = 8;

impl Report {
    fn new(seed: u64) -> Self {
        Report {
            groups: BTreeMap::new(),
            total_mismatch_cases: 0,
            steps: 0,
            cov: (0..7 * 256).map(|_| BTreeMap::new()).collect(),
            seed,
        }
    }
    #[allow(clippy::too_many_arguments)]
    fn mismatch(
        &mut self, kind: &str, plan: &Plan, field: &str, expected: &str, actual: &str,
        case: u64, step: usize, before: &RefState, ref_ev: &[Ev], real_ev: &[Ev],
        ref_after: &RefState, real_after: &RefState,
    ) {
        let key = (CLASS_NAMES[plan.class].to_string(), plan.opcode, field.to_string());
        let n = self.groups.entry(key).or_insert(0);
        *n += 1;
        if *n <= LINES_PER_GROUP {
            println!(
                "MISMATCH class={} prefix={} opcode={:02X} field={} expected(ref)={} actual(real)={} seed={} case={} step={} irq={} pending={:02X}",
                kind, CLASS_NAMES[plan.class], plan.opcode, field, expected, actual,
                self.seed, case, step, plan.irq, before.pending_prefix
            );
        }
        if *n <= DETAIL_PER_GROUP {
            println!("  initial: {:X?}", before);
            println!("  int={} nmi={} answers={:02X?}", plan.int, plan.nmi, &plan.ans[..12]);
            println!("  ref  after: {:X?}", ref_after);
            println!("  real after: {:X?}", real_after);
            println!("  ref  trace: {}", ref_ev.iter().map(fmt_ev).collect::<Vec<_>>().join(" "));
            println!("  real trace: {}", real_ev.iter().map(fmt_ev).collect::<Vec<_>>().join(" "));
        }
    }
    fn cover(&mut self, plan: &Plan, real_ev: &[Ev]) {
        let t: u32 = real_ev.iter().map(|e| e.clk).sum();
        *self.cov[plan.class * 256 + plan.opcode as usize].entry(t).or_insert(0) += 1;
    }
    fn summary(&self) -> bool {
        println!("==== SUMMARY seed={} steps={} ====", self.seed, self.steps);
        let hit = self.cov.iter().filter(|m| !m.is_empty()).count();
        let min_enc = self.cov.iter().map(|m| m.values().sum::<u64>()).min().unwrap_or(0);
        let variants: usize = self.cov.iter().map(|m| m.len()).sum();
        let min_var = self.cov.iter().flat_map(|m| m.values()).min().copied().unwrap_or(0);
        println!(
            "coverage (steps without interrupt/pending prefix): encodings hit {}/1792, min hits per encoding {}, (encoding,T-state) variants {}, min hits per variant {}",
            hit, min_enc, variants, min_var
        );
        if std::env::var_os("Z80DIFF_COVERAGE").is_some() {
            // full table: one line per encoding with its observed T-state totals
            for (i, m) in self.cov.iter().enumerate() {
                let v: Vec<String> = m.iter().map(|(t, n)| format!("{}T:{}", t, n)).collect();
                println!("COV {} {:02X} {}", CLASS_NAMES[i / 256], i % 256, v.join(" "));
            }
        }
        if self.groups.is_empty() {
            println!("no mismatches");
            return true;
        }
        println!("mismatching cases: {}", self.total_mismatch_cases);
        println!("{:<6} {:<6} {:<16} {}", "prefix", "opcode", "field", "count");
        for ((p, o, f), n) in &self.groups {
            println!("{:<6} {:02X}     {:<16} {}", p, o, f, n);
        }
        false
    }
}

// ---------------------------------------------------------------------------------------------
// driver
// ---------------------------------------------------------------------------------------------
struct Harness {
    cpu: Z80,
    real: RealBus,
    model: ModelBus,
}

/// run up to `nsteps` steps from `init`; returns after the first mismatching step
fn run_sequence(
    h: &mut Harness, rng: &mut Rng, rep: &mut Report, init: RefState, nsteps: usize,
    forced: Option<(usize, u8)>, p_nmi: u32, p_int: u32, case: u64,
) {
    load_real(&mut h.cpu, &init, rng.next() as u8);
    let mut rs = init;
    for step in 0..nsteps {
        let before = rs;
        let plan = plan_step(rng, &before, if step == 0 { forced } else { None }, p_nmi, p_int);
        h.real.0.reset(&plan.ans, plan.int, plan.nmi);
        h.model.0.reset(&plan.ans, plan.int, plan.nmi);
        h.cpu.emulate(&mut h.real);
        ref_step(&mut rs, &mut h.model);
        let actual = read_real(&h.cpu);
        rep.steps += 1;
        if plan.irq == "none" && before.pending_prefix == 0 {
            rep.cover(&plan, &h.real.0.ev);
        }
        let mut bad = false;
        let (re, ae) = (&h.model.0.ev, &h.real.0.ev);
        if re != ae {
            bad = true;
            let n = re.len().min(ae.len());
            let i = (0..n).find(|&i| re[i] != ae[i]).unwrap_or(n);
            let e = re.get(i).map(fmt_ev).unwrap_or_else(|| "<end>".into());
            let a = ae.get(i).map(fmt_ev).unwrap_or_else(|| "<end>".into());
            let e = format!("#{}:{}", i, e);
            rep.mismatch("trace", &plan, "trace", &e, &a, case, step, &before, re, ae, &rs, &actual);
        }
        for (f, e, a) in diff_states(&rs, &actual) {
            bad = true;
            rep.mismatch("state", &plan, f, &e, &a, case, step, &before, re, ae, &rs, &actual);
        }
        if bad {
            rep.total_mismatch_cases += 1;
            return;
        }
    }
}

fn usage() -> ! {
    eprintln!("usage: verif_z80diff random <seed> <count> | exhaustive-opcodes <seed> <per-opcode-count>");
    std::process::exit(2)
}

fn main() {
    let args: Vec<String> = std::env::args().collect();
    if args.len() != 4 {
        usage();
    }
    let seed: u64 = args[2].parse().unwrap_or_else(|_| usage());
    let count: u64 = args[3].parse().unwrap_or_else(|_| usage());
    let mut rng = Rng(seed.wrapping_mul(0x2545_F491_4F6C_DD1D) ^ 0xA5A5_5A5A_1234_5678);
    let mut rep = Report::new(seed);
    let mut h = Harness { cpu: Z80::default(), real: RealBus(Core::new()), model: ModelBus(Core::new()) };
    match args[1].as_str() {
        "random" => {
            for case in 0..count {
                let mut init = gen_state(&mut rng);
                match rng.below(100) {
                    0..=2 => {
                        init.halted = true;
                    }
                    3..=8 => {
                        init.pending_prefix = [0xDD, 0xFD, 0xED][rng.below(3) as usize];
                        init.int_inhibit = true;
                    }
                    _ => {}
                }
                let nsteps = 1 + rng.below(4) as usize;
                run_sequence(&mut h, &mut rng, &mut rep, init, nsteps, None, 5, 20, case);
            }
        }
        "exhaustive-opcodes" => {
            let mut case = 0u64;
            for class in 0..7usize {
                for opcode in 0..=255u8 {
                    for _ in 0..count {
                        let mut init = gen_state(&mut rng);
                        // one in five prefixed cases starts with the prefix already consumed
                        if class >= 2 && rng.chance(20) {
                            init.pending_prefix = match class {
                                2 => 0xED,
                                3 | 5 => 0xDD,
                                _ => 0xFD,
                            };
                            init.int_inhibit = true;
                        }
                        run_sequence(&mut h, &mut rng, &mut rep, init, 1, Some((class, opcode)), 3, 10, case);
                        case += 1;
                    }
                }
            }
        }
        _ => usage(),
    }
    let ok = rep.summary();
    std::process::exit(if ok { 0 } else { 1 });
}
