"""Native replay finder: turns a failed obligation into a concrete failing input where an
executable twin of the obligation exists (DESIGN §2.5); otherwise returns None and the
VIOLATION line ends with no-failing-input-found."""
import json
import os
import subprocess
import sys

VERIF = os.path.dirname(os.path.abspath(__file__))


def find_input(pid, failure, repo, seed):
    finder = failure.get("finder")
    if not finder:
        return None
    return finder(pid, failure, repo, seed)


def main(argv):
    if not argv:
        print("usage: ./check replay <file>")
        return 2
    rec = json.load(open(argv[0]))
    print("obligation:", rec["obligation"])
    print(rec.get("verifier_output", "")[:4000])
    fi = rec.get("failing_input")
    if not fi:
        print("no failing input was found for this obligation (verifier gives no model)")
        return 1
    print("failing input:", json.dumps(fi))
    if fi.get("replay_cmd"):
        r = subprocess.run(fi["replay_cmd"], shell=True)
        return 1 if r.returncode != 0 else 0
    return 1
