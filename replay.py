"""Native replay finder: turns a failed obligation into a concrete failing input where an
executable twin of the obligation exists (DESIGN §2.5); otherwise returns None and the
VIOLATION line ends with no-failing-input-found."""
import json
import os
import subprocess
import sys

VERIF = os.path.dirname(os.path.abspath(__file__))


def z80_finder(pid, failure, repo, seed):
    """run the native differential tool (real Z80::emulate vs reference, same RecBus vocabulary)
    on a scratch copy and return the first mismatch that is not the documented Q waiver"""
    import re, shutil, tempfile
    scratch = os.path.join(os.environ.get("VERIF_SCRATCH", "/var/tmp"), "vp-replay-%s-%d" % (pid, os.getpid()))
    try:
        r = subprocess.run([sys.executable, os.path.join(VERIF, "kani", "inject.py"), scratch, "--repo", repo,
                            "--no-lock-bump"], capture_output=True, text=True)
        if r.returncode != 0:
            return None
        env = dict(os.environ, RUSTFLAGS="--cfg rustzx_verif", CARGO_NET_OFFLINE="true")
        cmd = ["cargo", "run", "--offline", "--release", "-q", "-p", "rustzx-z80", "--example", "verif_z80diff",
               "--", "exhaustive-opcodes", str(seed or 1), "300"]
        p = subprocess.run(cmd, cwd=scratch, env=env, capture_output=True, text=True, timeout=1200)
        out = p.stdout
        for m in re.finditer(r"^MISMATCH .*$", out, re.M):
            line = m.group(0)
            if re.search(r"field=q\b", line) and re.search(r"opcode=(B0|B1|B8|B9)", line, re.I):
                continue  # documented Q waiver (repeating LDIR/LDDR/CPIR/CPDR)
            # attach the detailed block following the first occurrence, if any
            detail = out[m.end():m.end() + 2500]
            return dict(kind="z80-step", record=line, detail=detail,
                        replay_cmd="python3 %s/kani/inject.py /var/tmp/vp-replay-z80 --no-lock-bump >/dev/null && "
                                   "cd /var/tmp/vp-replay-z80 && RUSTFLAGS='--cfg rustzx_verif' cargo run --offline --release -q "
                                   "-p rustzx-z80 --example verif_z80diff -- exhaustive-opcodes %s 300 | grep -m1 -A40 '%s'; "
                                   "rc=$?; rm -rf /var/tmp/vp-replay-z80; test $rc -ne 0"
                                   % (VERIF, seed or 1, line[:60].replace("'", "")))
        return None
    finally:
        shutil.rmtree(scratch, ignore_errors=True)


def contention_finder(pid, failure, repo, seed):
    """exhaustive native comparison of contention_clocks with the statement's delay function"""
    import re, shutil
    scratch = os.path.join(os.environ.get("VERIF_SCRATCH", "/var/tmp"), "vp-replay-%s-%d" % (pid, os.getpid()))
    try:
        r = subprocess.run([sys.executable, os.path.join(VERIF, "kani", "inject.py"), scratch, "--repo", repo,
                            "--no-lock-bump"], capture_output=True, text=True)
        if r.returncode != 0:
            return None
        cmd = ["cargo", "run", "--offline", "--release", "-q", "-p", "rustzx-core", "--example", "verif_contention"]
        p = subprocess.run(cmd, cwd=scratch, env=dict(os.environ, CARGO_NET_OFFLINE="true"), capture_output=True, text=True, timeout=900)
        m = re.search(r"^MISMATCH .*$", p.stdout, re.M)
        if not m:
            return None
        return dict(kind="contention", record=m.group(0),
                    replay_cmd="python3 %s/kani/inject.py /var/tmp/vp-replay-c04 --no-lock-bump >/dev/null && cd /var/tmp/vp-replay-c04 && "
                               "cargo run --offline --release -q -p rustzx-core --example verif_contention; rc=$?; rm -rf /var/tmp/vp-replay-c04; test $rc -eq 0" % VERIF)
    finally:
        shutil.rmtree(scratch, ignore_errors=True)


FINDERS = {"z80": z80_finder, "contention": contention_finder}
VERUS_FINDERS = {("ctl", "contention_clocks"): "contention"}


def find_input(pid, failure, repo, seed):
    finder = failure.get("finder")
    if not finder and failure.get("engine") == "verus":
        finder = VERUS_FINDERS.get((failure.get("unit"), failure.get("function")))
    if not finder:
        return None
    if isinstance(finder, str):
        finder = FINDERS.get(finder)
        if not finder:
            return None
    return finder(pid, failure, repo, seed)


def main(argv):
    if not argv:
        print("usage: ./check replay <file>")
        return 2
    rec = json.load(open(argv[0]))
    print("obligation:", rec["obligation"])
    print(rec.get("verifier_output", "")[:4000])
    fi = rec.get("failing_input")
    if not fi:
        print("no failing input was found for this obligation (verifier gives no model)")
        return 1
    print("failing input:", json.dumps(fi))
    if fi.get("replay_cmd"):
        r = subprocess.run(fi["replay_cmd"], shell=True)
        return 1 if r.returncode != 0 else 0
    return 1
