"""Native replay finder: turns a failed obligation into a concrete failing input where an
executable twin of the obligation exists (DESIGN §2.5); otherwise returns None and the
VIOLATION line ends with no-failing-input-found."""
import json
import os
import subprocess
import sys

VERIF = os.path.dirname(os.path.abspath(__file__))


def z80_finder(pid, failure, repo, seed):
    """run the native differential tool (real Z80::emulate vs reference, same RecBus vocabulary)
    on a scratch copy and return the first mismatch that is not the documented Q waiver"""
    import re, shutil, tempfile
    scratch = os.path.join(os.environ.get("VERIF_SCRATCH", "/var/tmp"), "vp-replay-%s-%d" % (pid, os.getpid()))
    try:
        r = subprocess.run([sys.executable, os.path.join(VERIF, "kani", "inject.py"), scratch, "--repo", repo,
                            "--no-lock-bump"], capture_output=True, text=True)
        if r.returncode != 0:
            return None
        env = dict(os.environ, RUSTFLAGS="--cfg rustzx_verif", CARGO_NET_OFFLINE="true")
        cmd = ["cargo", "run", "--offline", "--release", "-q", "-p", "rustzx-z80", "--example", "verif_z80diff",
               "--", "exhaustive-opcodes", str(seed or 1), "300"]
        p = subprocess.run(cmd, cwd=scratch, env=env, capture_output=True, text=True, timeout=1200)
        out = p.stdout
        for m in re.finditer(r"^MISMATCH .*$", out, re.M):
            line = m.group(0)
            if re.search(r"field=q\b", line) and re.search(r"opcode=(B0|B1|B8|B9)", line, re.I):
                continue  # documented Q waiver (repeating LDIR/LDDR/CPIR/CPDR)
            # attach the detailed block following the first occurrence, if any
            detail = out[m.end():m.end() + 2500]
            return dict(kind="z80-step", record=line, detail=detail,
                        replay_cmd="python3 %s/kani/inject.py /var/tmp/vp-replay-z80 --no-lock-bump >/dev/null && "
                                   "cd /var/tmp/vp-replay-z80 && RUSTFLAGS='--cfg rustzx_verif' cargo run --offline --release -q "
                                   "-p rustzx-z80 --example verif_z80diff -- exhaustive-opcodes %s 300 | grep -m1 -A40 '%s'; "
                                   "rc=$?; rm -rf /var/tmp/vp-replay-z80; test $rc -ne 0"
                                   % (VERIF, seed or 1, line[:60].replace("'", "")))
        return None
    finally:
        shutil.rmtree(scratch, ignore_errors=True)


def contention_finder(pid, failure, repo, seed):
    """exhaustive native comparison of contention_clocks with the statement's delay function"""
    import re, shutil
    scratch = os.path.join(os.environ.get("VERIF_SCRATCH", "/var/tmp"), "vp-replay-%s-%d" % (pid, os.getpid()))
    try:
        r = subprocess.run([sys.executable, os.path.join(VERIF, "kani", "inject.py"), scratch, "--repo", repo,
                            "--no-lock-bump"], capture_output=True, text=True)
        if r.returncode != 0:
            return None
        cmd = ["cargo", "run", "--offline", "--release", "-q", "-p", "rustzx-core", "--example", "verif_contention"]
        p = subprocess.run(cmd, cwd=scratch, env=dict(os.environ, CARGO_NET_OFFLINE="true"), capture_output=True, text=True, timeout=900)
        m = re.search(r"^MISMATCH .*$", p.stdout, re.M)
        if not m:
            return None
        return dict(kind="contention", record=m.group(0),
                    replay_cmd="python3 %s/kani/inject.py /var/tmp/vp-replay-c04 --no-lock-bump >/dev/null && cd /var/tmp/vp-replay-c04 && "
                               "cargo run --offline --release -q -p rustzx-core --example verif_contention; rc=$?; rm -rf /var/tmp/vp-replay-c04; test $rc -eq 0" % VERIF)
    finally:
        shutil.rmtree(scratch, ignore_errors=True)



# ---------------------------------------------------------------------------------------------
# Kani counterexamples: CBMC's trace turned into a native test by Kani's concrete playback and
# run against the real code (outside CBMC; #[kani::stub] replacements are NOT applied there, so a
# counterexample that needed a stub's behaviour does not reproduce and is reported as not found)
# ---------------------------------------------------------------------------------------------
_PLAYBACK_CACHE = {}


def _scratch_with_harness_copy(scratch, repo):
    """overlay scratch copy whose harness sources are a private copy (playback appends a test)"""
    import shutil
    r = subprocess.run([sys.executable, os.path.join(VERIF, "kani", "inject.py"), scratch, "--repo", repo],
                       capture_output=True, text=True)
    if r.returncode != 0:
        return None
    kdir = os.path.join(scratch, "verif_kani")
    shutil.copytree(os.path.join(VERIF, "kani"), kdir)
    for root, _, files in os.walk(scratch):
        if "/target" in root or root.startswith(kdir):
            continue
        for f in files:
            if f.endswith(".rs"):
                pth = os.path.join(root, f)
                t = open(pth).read()
                if VERIF + "/kani/" in t:
                    open(pth, "w").write(t.replace(VERIF + "/kani/", kdir + "/"))
    return kdir


def _harness_file(kdir, harness):
    import re
    for root, _, files in os.walk(kdir):
        for f in sorted(files):
            if f.endswith(".rs"):
                t = open(os.path.join(root, f)).read()
                if re.search(r"\bfn\s+%s\s*\(" % re.escape(harness), t) or \
                        re.search(r"^\s*\w+!\(\s*%s\s*[,)]" % re.escape(harness), t, re.M):
                    return os.path.join(root, f)
    return None


def _playback_tests(text):
    """[(check description, test name, code)] from `--concrete-playback=print` output"""
    import re
    out = []
    for m in re.finditer(r"```\n(.*?)```", text, re.S):
        code = m.group(1)
        d = re.search(r"Check for `(\w+)`: \"(.*?)\"\n", code, re.S)
        n = re.search(r"fn (kani_concrete_playback_\w+)\(", code)
        if d and n:
            out.append((d.group(1), d.group(2), n.group(1), code))
    return out


def _run_playback(scratch, kdir, grp, harness, name, code):
    import re
    hf = _harness_file(kdir, harness)
    if not hf:
        return None, "harness source not found"
    crate_root = os.path.join(scratch, grp["package"], "src", "lib.rs")
    no_std = os.path.isfile(crate_root) and "#![no_std]" in open(crate_root).read()
    if no_std:
        code = code.replace("Vec<Vec<u8>>", "alloc::vec::Vec<alloc::vec::Vec<u8>>").replace("vec![", "alloc::vec![")
    open(hf, "a").write("\n" + code + "\n")
    cmd = ["cargo", "kani", "playback", "-Z", "concrete-playback", "-p", grp["package"]]
    if grp.get("features"):
        cmd += ["--features", grp["features"]]
    cmd += ["--", name]
    p = subprocess.run(cmd, cwd=scratch, env=dict(os.environ, CARGO_NET_OFFLINE="true", RUST_BACKTRACE="0"),
                       capture_output=True, text=True, timeout=1800)
    txt = p.stdout + p.stderr
    if re.search(r"test result: FAILED", txt):
        pm = re.search(r"panicked at [^\n]*\n([^\n]*)", txt)
        return True, (pm.group(1).strip() if pm else "test failed")
    if re.search(r"test result: ok\. 1 passed", txt):
        return False, "the counterexample does not fail natively (stubs are not applied in playback)"
    return None, "playback did not run: " + txt[-400:]


def kani_playback(pid, failure, repo, seed):
    import re, shutil
    grp = failure.get("kani_group")
    harness = failure.get("unit")
    if not grp or not harness:
        return None
    desc = failure["obligation"].split("::", 1)[1] if "::" in failure["obligation"] else failure["obligation"]
    key = (repo, harness)
    scratch = os.path.join(os.environ.get("VERIF_SCRATCH", "/var/tmp"), "vp-playback-%s-%d" % (pid, os.getpid()))
    try:
        if key not in _PLAYBACK_CACHE:
            shutil.rmtree(scratch, ignore_errors=True)
            kdir = _scratch_with_harness_copy(scratch, repo)
            if not kdir:
                return None
            cmd = ["cargo", "kani", "-p", grp["package"]]
            if grp.get("features"):
                cmd += ["--features", grp["features"]]
            cmd += ["-Z", "function-contracts", "-Z", "stubbing", "-Z", "concrete-playback",
                    "--concrete-playback=print"] + grp.get("flags", []) + ["--harness", harness]
            import signal
            proc = subprocess.Popen(cmd, cwd=scratch, env=dict(os.environ, CARGO_NET_OFFLINE="true"),
                                    stdout=subprocess.PIPE, stderr=subprocess.STDOUT, text=True, start_new_session=True)
            try:
                text, _ = proc.communicate(timeout=int(os.environ.get("VERIF_PLAYBACK_TIMEOUT", "2400")))
            except subprocess.TimeoutExpired:
                try:
                    os.killpg(proc.pid, signal.SIGKILL)
                except ProcessLookupError:
                    pass
                text = ""
            _PLAYBACK_CACHE[key] = [t for t in _playback_tests(text) if t[0] == "assertion"]
        tests = _PLAYBACK_CACHE[key]
        pick = [t for t in tests if t[1].strip() == desc.strip()] or [t for t in tests if desc.strip()[:40] in t[1]]
        if not pick:
            return None
        _, d, name, code = pick[0]
        if not os.path.isdir(scratch):
            if not _scratch_with_harness_copy(scratch, repo):
                return None
        ok, msg = _run_playback(scratch, os.path.join(scratch, "verif_kani"), grp, harness, name, code)
        if not ok:
            failure["finder_error"] = "kani concrete playback: " + msg
            return None
        return dict(kind="kani-concrete-playback", harness=harness, package=grp["package"], features=grp.get("features"),
                    check=d, test_name=name, test_code=code, native_outcome="panicked: " + msg,
                    note="CBMC counterexample (values of every kani::any() in order) replayed natively on the real code; "
                         "re-run with ./check replay <this file>")
    finally:
        shutil.rmtree(scratch, ignore_errors=True)


def replay_playback(fi, repo="/repo"):
    import shutil
    scratch = os.path.join(os.environ.get("VERIF_SCRATCH", "/var/tmp"), "vp-playback-replay-%d" % os.getpid())
    try:
        kdir = _scratch_with_harness_copy(scratch, repo)
        if not kdir:
            print("could not build the overlay scratch copy")
            return 2
        ok, msg = _run_playback(scratch, kdir, dict(package=fi["package"], features=fi.get("features")),
                                fi["harness"], fi["test_name"], fi["test_code"])
        print("native playback:", "FAILS - " + msg if ok else ("passes on this tree" if ok is False else msg))
        return 1 if ok else 0
    finally:
        shutil.rmtree(scratch, ignore_errors=True)


def driving_finder(pid, failure, repo, seed):
    """C16: the same scenario under different host drivings (frames per call, max speed, breakpoint
    stop/resume, sound on/off and drained or not) compared natively with one frame per call"""
    import re, shutil
    scratch = os.path.join(os.environ.get("VERIF_SCRATCH", "/var/tmp"), "vp-replay-%s-%d" % (pid, os.getpid()))
    try:
        r = subprocess.run([sys.executable, os.path.join(VERIF, "kani", "inject.py"), scratch, "--repo", repo,
                            "--no-lock-bump"], capture_output=True, text=True)
        if r.returncode != 0:
            return None
        cmd = ["cargo", "test", "--offline", "-q", "-p", "rustzx-test", "--test", "verif_driving", "--", "--nocapture"]
        p = subprocess.run(cmd, cwd=scratch, env=dict(os.environ, CARGO_NET_OFFLINE="true"), capture_output=True, text=True, timeout=1500)
        if "test result" not in p.stdout:
            raise RuntimeError("native finder did not run (build error?): " + p.stderr[-400:])
        ms = re.findall(r"^MISMATCH .*$", p.stdout, re.M)
        if not ms:
            return None
        return dict(kind="driving", record=ms[0], all=ms[:8],
                    replay_cmd="python3 %s/kani/inject.py /var/tmp/vp-replay-c16 --no-lock-bump >/dev/null && cd /var/tmp/vp-replay-c16 && "
                               "cargo test --offline -q -p rustzx-test --test verif_driving -- --nocapture; rc=$?; rm -rf /var/tmp/vp-replay-c16; test $rc -eq 0" % VERIF)
    finally:
        shutil.rmtree(scratch, ignore_errors=True)


def tape_finder(pid, failure, repo, seed):
    """C11/C12: small TAP images played through the real Tap with bus-wait sized steps (and stop /
    play commands at pseudo-random moments); every EAR pulse compared with the standard waveform"""
    import re, shutil
    scratch = os.path.join(os.environ.get("VERIF_SCRATCH", "/var/tmp"), "vp-replay-%s-%d" % (pid, os.getpid()))
    try:
        r = subprocess.run([sys.executable, os.path.join(VERIF, "kani", "inject.py"), scratch, "--repo", repo,
                            "--no-lock-bump"], capture_output=True, text=True)
        if r.returncode != 0:
            return None
        cmd = ["cargo", "test", "--offline", "-q", "-p", "rustzx-core", "--features", "full", "--lib", "verif_tape_native",
               "--", "--nocapture"]
        p = subprocess.run(cmd, cwd=scratch, env=dict(os.environ, CARGO_NET_OFFLINE="true", VERIF_SEED=str(seed or 1)),
                           capture_output=True, text=True, timeout=1500)
        if "test result" not in p.stdout:
            raise RuntimeError("native finder did not run (build error?): " + p.stderr[-400:])
        ms = re.findall(r"^MISMATCH .*$", p.stdout, re.M)
        if not ms:
            return None
        return dict(kind="tape-waveform", record=ms[0], all=ms[:8],
                    replay_cmd="python3 %s/kani/inject.py /var/tmp/vp-replay-tape --no-lock-bump >/dev/null && cd /var/tmp/vp-replay-tape && "
                               "VERIF_SEED=%s cargo test --offline -q -p rustzx-core --features full --lib verif_tape_native -- --nocapture; "
                               "rc=$?; rm -rf /var/tmp/vp-replay-tape; test $rc -eq 0" % (VERIF, seed or 1))
    finally:
        shutil.rmtree(scratch, ignore_errors=True)


def szx_finder(pid, failure, repo, seed):
    """C15 (bounded): one-block SZX files, every block id the loader looks into in four letter cases, every
    declared size below the handler's minimum: load must return Err and never panic"""
    import re, shutil
    scratch = os.path.join(os.environ.get("VERIF_SCRATCH", "/var/tmp"), "vp-replay-%s-%d" % (pid, os.getpid()))
    try:
        r = subprocess.run([sys.executable, os.path.join(VERIF, "kani", "inject.py"), scratch, "--repo", repo,
                            "--no-lock-bump"], capture_output=True, text=True)
        if r.returncode != 0:
            return None
        cmd = ["cargo", "test", "--offline", "-q", "-p", "rustzx-test", "--test", "verif_szx", "--", "--nocapture"]
        p = subprocess.run(cmd, cwd=scratch, env=dict(os.environ, CARGO_NET_OFFLINE="true"), capture_output=True, text=True, timeout=1500)
        if "test result" not in p.stdout:
            raise RuntimeError("native finder did not run (build error?): " + p.stderr[-400:])
        ms = re.findall(r"^MISMATCH .*$", p.stdout, re.M)
        if not ms:
            return None
        return dict(kind="szx-short-block", record=ms[0][:600], all=[m[:300] for m in ms[:8]],
                    replay_cmd="python3 %s/kani/inject.py /var/tmp/vp-replay-szx --no-lock-bump >/dev/null && cd /var/tmp/vp-replay-szx && "
                               "cargo test --offline -q -p rustzx-test --test verif_szx -- --nocapture; rc=$?; rm -rf /var/tmp/vp-replay-szx; test $rc -eq 0" % VERIF)
    finally:
        shutil.rmtree(scratch, ignore_errors=True)


FINDERS = {"z80": z80_finder, "contention": contention_finder, "driving": driving_finder, "tape": tape_finder,
           "szx": szx_finder}
VERUS_FINDERS = {("ctl", "contention_clocks"): "contention",
                 ("ctl", "emulate_frames"): "driving", ("ctl", "reset_frame_counter"): "driving",
                 ("ctl", "take_events"): "driving", ("ctl", "take_last_emulation_error"): "driving",
                 ("ctl", "process_fast_load_event"): "driving", ("ctl", "take"): "driving", ("mixer", "pop"): "driving",
                 ("tape", None): "tape"}


def find_input(pid, failure, repo, seed):
    finder = failure.get("finder")
    if not finder and failure.get("engine") == "verus":
        finder = VERUS_FINDERS.get((failure.get("unit"), failure.get("function"))) or VERUS_FINDERS.get((failure.get("unit"), None))
    found = None
    if isinstance(finder, str):
        finder = FINDERS.get(finder)
    if finder:
        found = finder(pid, failure, repo, seed)
    if not found and failure.get("engine") == "kani" and os.environ.get("VERIF_NO_PLAYBACK") != "1":
        found = kani_playback(pid, failure, repo, seed)
    return found


def main(argv):
    if not argv:
        print("usage: ./check replay <file>")
        return 2
    rec = json.load(open(argv[0]))
    print("obligation:", rec["obligation"])
    print(rec.get("verifier_output", "")[:4000])
    fi = rec.get("failing_input")
    if not fi:
        print("no failing input was found for this obligation (verifier gives no model)")
        return 1
    print("failing input:", json.dumps({k: v for k, v in fi.items() if k != "test_code"}))
    if fi.get("kind") == "kani-concrete-playback":
        print(fi["test_code"])
        repo = argv[argv.index("--repo") + 1] if "--repo" in argv else "/repo"
        return replay_playback(fi, repo)
    if fi.get("replay_cmd"):
        r = subprocess.run(fi["replay_cmd"], shell=True)
        return 1 if r.returncode != 0 else 0
    return 1
